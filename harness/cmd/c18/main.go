// Correspondence runner and property oracle for C18: many concurrent callers
// of the real client secure channel (None mode, loopback TCP) against a
// scripted peer that reorders, drops, duplicates, delays and invents
// responses, with the request id counter near 2^32 and forced wrap-around
// collisions. The events the real code emits at its verifPoints are replayed
// through the Lean handler-table LTS (every step must be accepted, the final
// "who got what" and the handler table must agree); the property's own oracle
// is evaluated on what the callers of the real code received.
package main

import (
	"context"
	"fmt"
	"os"
	"runtime"
	"sort"
	"strings"
	"sync"
	"time"

	"github.com/gopcua/opcua"
	"github.com/gopcua/opcua/ua"
	"github.com/gopcua/opcua/uacp"
	"github.com/gopcua/opcua/uasc"

	"verifharness/internal/h"
)

type plan int

const (
	pAnswer    plan = iota // answered in time
	pFault                 // answered with a ServiceFault
	pWrongType             // answered with a response of another service
	pDup                   // answered twice
	pDrop                  // never answered: the caller's timer fires
	pLate                  // answered after the caller's timeout
	pCancel                // the caller's context is cancelled while waiting
	pPreCancel             // the context is already cancelled when the request is sent
	pNotResp               // answered with a message that decodes but is not a response (a request body)
	nPlans
)

var planNames = []string{"answer", "fault", "wrongtype", "dup", "drop", "late", "cancel", "precancel", "notresponse"}

type caller struct {
	k       int
	plan    plan
	wave    int
	marker  uint32
	timeout time.Duration
	ctx     context.Context
	cancel  context.CancelFunc

	// results (written by the caller goroutine before done is closed)
	err        error
	handlerRan bool
	gotType    string
	gotMarker  int64 // -1 = none
	gotSerial  int64
	gotHandle  uint32
	gotBulk    int // length of the bulk payload of a multi-chunk response (-1: none / damaged)
	assignErr  error
	done       chan struct{}
}

type peerReq struct {
	reqID  uint32
	marker uint32
}

const markerBase = 1000

func readReq(k int) *ua.ReadRequest {
	return &ua.ReadRequest{
		TimestampsToReturn: ua.TimestampsToReturnNeither,
		NodesToRead:        []*ua.ReadValueID{{NodeID: ua.NewNumericNodeID(0, uint32(markerBase+k)), AttributeID: ua.AttributeIDValue, DataEncoding: &ua.QualifiedName{}}},
	}
}

func serialTime(serial int) time.Time { return time.Unix(1700000000+int64(serial), 0).UTC() }

func hdr(handle uint32, serial int, status ua.StatusCode) *ua.ResponseHeader {
	rh := h.RespHeader(handle, status)
	rh.Timestamp = serialTime(serial)
	return rh
}

func nextID(c uint32) uint32 {
	c++
	if c == 0 {
		c = 1
	}
	return c
}

type env struct {
	o *h.Opts
	r *h.Result
	d *h.Driver
}

// scenario runs one channel with its callers and returns false on an
// infrastructure problem.
func (e *env) scenario(seed uint64, idx int) {
	nf, nd := len(e.r.OracleFailures), len(e.r.Disagreements)
	e.scenario1(seed, idx)
	// a hang or a failed call that comes with an oracle failure or a model
	// disagreement is a finding of the run, not an infrastructure problem
	if e.r.InfraError != "" && (len(e.r.OracleFailures) > nf || len(e.r.Disagreements) > nd) {
		e.r.Notes = append(e.r.Notes, "not reported as infra: "+e.r.InfraError)
		e.r.InfraError = ""
	}
}

func (e *env) scenario1(seed uint64, idx int) {
	rnd := h.NewRand(seed*1000003 + uint64(idx))
	caseName := fmt.Sprintf("scenario %d %d", seed, idx)
	r := e.r

	cli, srv, cleanup, err := h.SendLoopback()
	if err != nil {
		r.InfraError = "loopback: " + err.Error()
		return
	}
	defer cleanup()

	// counter seed: mostly just below 2^32 so that the ids wrap inside the scenario
	var seedID uint32
	switch rnd.Intn(4) {
	case 0:
		seedID = uint32(rnd.Intn(1000))
	default:
		seedID = 0xFFFFFFFF - uint32(rnd.Intn(12))
	}
	cfg := h.NoneConfig(seedID, 50*time.Millisecond)
	errch := make(chan error, 64)
	sc, err := uasc.VerifOpenChannel(cli, cfg, false, 7, 3, uint32(rnd.Intn(1<<20)), nil, nil, errch)
	if err != nil {
		r.InfraError = "VerifOpenChannel: " + err.Error()
		return
	}
	ctl := h.NewSendCtl()
	goidToCaller := map[int64]int{}
	var gmu sync.Mutex
	uasc.VerifSetHook(ctl.Hook)
	defer uasc.VerifSetHook(nil)
	sc.VerifStartDispatcher()

	// ---- the scripted peer: reads requests, answers on command
	reqs := make(chan peerReq, 256)
	peerDone := make(chan struct{})
	go func() {
		defer close(peerDone)
		for {
			c, err := h.PeerRead(srv)
			if err != nil {
				return
			}
			if c.Type != "MSG" {
				continue
			}
			_, svc, err := ua.DecodeService(c.Body)
			if err != nil {
				continue
			}
			if rr, ok := svc.(*ua.ReadRequest); ok && len(rr.NodesToRead) == 1 {
				reqs <- peerReq{c.ReqID, rr.NodesToRead[0].NodeID.IntID()}
			}
		}
	}()
	var peerSeq uint32 = 100
	serial := 0
	send := func(reqID uint32, svc interface{}) {
		if err := h.PeerSendMSG(srv, 7, 3, &peerSeq, reqID, svc, 8000); err != nil && r.InfraError == "" {
			r.InfraError = "peer send: " + err.Error()
		}
		serial++
	}
	// a response that needs several chunks: its bulk payload repeats the low byte of the marker
	bulkLen := map[uint32]int{}
	bigResp := func(reqID, marker uint32, n int) *ua.ReadResponse {
		b := make([]byte, n)
		for i := range b {
			b[i] = byte(marker)
		}
		bulkLen[marker] = n
		return &ua.ReadResponse{ResponseHeader: hdr(reqID, serial, ua.StatusOK),
			Results: []*ua.DataValue{{EncodingMask: ua.DataValueValue, Value: ua.MustVariant(int64(marker))},
				{EncodingMask: ua.DataValueValue, Value: ua.MustVariant(b)}}}
	}
	// sendInterleaved writes the chunks of two multi-chunk responses alternately; the message whose final
	// chunk goes out first arrives first
	sendInterleaved := func(idA uint32, a *ua.ReadResponse, idB uint32, b *ua.ReadResponse) {
		ca, err1 := h.PeerChunksMSG(7, 3, idA, a, 300)
		cb, err2 := h.PeerChunksMSG(7, 3, idB, b, 300)
		if err1 != nil || err2 != nil {
			r.InfraError = fmt.Sprintf("peer encode: %v %v", err1, err2)
			return
		}
		for len(ca) > 0 || len(cb) > 0 {
			if len(ca) > 0 {
				h.PeerWriteChunk(srv, ca[0], &peerSeq)
				ca = ca[1:]
			}
			if len(cb) > 0 {
				h.PeerWriteChunk(srv, cb[0], &peerSeq)
				cb = cb[1:]
			}
		}
	}
	readResp := func(reqID, marker uint32) *ua.ReadResponse {
		return &ua.ReadResponse{ResponseHeader: hdr(reqID, serial, ua.StatusOK),
			Results: []*ua.DataValue{{EncodingMask: ua.DataValueValue, Value: ua.MustVariant(int64(marker))}}}
	}

	// ---- callers
	n1 := 3 + rnd.Intn(8)
	n2 := 0
	wrap := rnd.Chance(60)
	if wrap {
		n2 = 2 + rnd.Intn(4)
	}
	var callers []*caller
	mk := func(wave int) *caller {
		c := &caller{k: len(callers), wave: wave, done: make(chan struct{}), gotMarker: -1, gotSerial: -1}
		c.marker = uint32(markerBase + c.k)
		c.plan = plan(rnd.Intn(int(nPlans)))
		if rnd.Chance(35) {
			c.plan = pAnswer
		}
		c.timeout = 6 * time.Second
		if c.plan == pDrop || c.plan == pLate {
			c.timeout = time.Duration(20+rnd.Intn(30)) * time.Millisecond
		}
		c.ctx, c.cancel = context.WithCancel(context.Background())
		if c.plan == pPreCancel {
			c.cancel()
		}
		callers = append(callers, c)
		return c
	}
	start := func(c *caller) {
		go func() {
			gmu.Lock()
			goidToCaller[h.GoID()] = c.k
			gmu.Unlock()
			defer close(c.done)
			c.err = sc.SendRequestWithTimeout(c.ctx, readReq(c.k), nil, c.timeout, func(v ua.Response) error {
				c.handlerRan = true
				c.gotType = fmt.Sprintf("%T", v)
				if v != nil && v.Header() != nil {
					c.gotSerial = v.Header().Timestamp.Unix() - 1700000000
					c.gotHandle = v.Header().RequestHandle
				}
				var res *ua.ReadResponse
				c.assignErr = opcua.VerifSafeAssign(v, &res)
				if c.assignErr != nil {
					return c.assignErr
				}
				if len(res.Results) >= 1 && res.Results[0].Value != nil {
					c.gotMarker = res.Results[0].Value.Int()
				}
				if len(res.Results) == 2 && res.Results[1].Value != nil {
					if b, ok := res.Results[1].Value.Value().([]byte); ok {
						c.gotBulk = len(b)
						for _, x := range b {
							if x != byte(c.gotMarker) {
								c.gotBulk = -1 // bytes of another response mixed in
								break
							}
						}
					}
				}
				return nil
			})
			ctl.Hook("harness.return", c.k)
		}()
	}

	pending := map[uint32]uint32{} // marker -> request id as seen by the peer
	collect := func(want int) bool {
		deadline := time.After(10 * time.Second)
		for got := 0; got < want; {
			select {
			case q := <-reqs:
				pending[q.marker] = q.reqID
				got++
			case <-deadline:
				return false
			}
		}
		return true
	}
	// number of requests of a wave that reach the peer: all except those whose
	// registration is refused or whose context is already done
	wave1 := []*caller{}
	for i := 0; i < n1; i++ {
		wave1 = append(wave1, mk(1))
	}
	for _, c := range wave1 {
		start(c)
	}
	expect1 := 0
	for _, c := range wave1 {
		if c.plan != pPreCancel {
			expect1++
		}
	}
	if !collect(expect1) {
		e.blocked(caseName + ": peer did not receive the requests of wave 1")
		if os.Getenv("VERIF_DEBUG") != "" {
			for _, ev := range ctl.Events() {
				fmt.Fprintln(os.Stderr, ev.G, ev.Name, ev.Args)
			}
			select {
			case err := <-errch:
				fmt.Fprintln(os.Stderr, "errch:", err)
			default:
			}
		}
		ctl.ReleaseAll()
		return
	}
	// pre-cancelled callers return at once
	for _, c := range wave1 {
		if c.plan == pPreCancel {
			<-c.done
		}
	}

	dupExpected := map[int]bool{}
	// candidates for a forced collision: pending ids whose callers wait long enough
	var targets []uint32
	for _, c := range wave1 {
		if id, ok := pending[c.marker]; ok && c.plan != pDrop && c.plan != pLate {
			targets = append(targets, id)
		}
	}
	if wrap && len(targets) > 0 {
		// bring the counter round to just before a pending id: the next call of
		// nextRequestID hands that id out again
		sort.Slice(targets, func(i, j int) bool { return targets[i] < targets[j] })
		p := targets[rnd.Intn(len(targets))]
		if rnd.Bool() {
			p = targets[len(targets)-1] // the ids after it are mostly free
		}
		before := p - 1
		if p == 1 {
			before = 0xFFFFFFFF
		}
		sc.VerifSetRequestIDLocked(before)
		ctl.Hook("harness.setctr", before)
		r.Hit("wrap-collision-forced")
		// wave 2 starts one caller after the other; the first one draws p again
		for i := 0; i < n2; i++ {
			c := mk(2)
			if c.plan == pDrop || c.plan == pLate {
				c.plan = pAnswer
				c.timeout = 6 * time.Second
			}
			if i == 0 {
				if c.plan == pPreCancel { // would return before it registers anything
					c.plan = pAnswer
					c.ctx, c.cancel = context.WithCancel(context.Background())
				}
				dupExpected[c.k] = true
			}
			start(c)
			select {
			case <-c.done: // refused or context already done
			case q := <-reqs:
				pending[q.marker] = q.reqID
			case <-time.After(10 * time.Second):
				e.blocked(caseName + ": caller of wave 2 neither returned nor reached the peer")
				ctl.ReleaseAll()
				return
			}
		}
	}

	// ---- the peer answers in a random order, with unsolicited ids in between
	order := rnd.Fork()
	var todo []*caller
	for _, c := range callers {
		if _, ok := pending[c.marker]; ok {
			todo = append(todo, c)
		}
	}
	for i := len(todo) - 1; i > 0; i-- {
		j := order.Intn(i + 1)
		todo[i], todo[j] = todo[j], todo[i]
	}
	var late []*caller
	unsolicited := func() {
		id := uint32(order.Intn(5))
		if order.Bool() {
			id = 0x7fff0000 + uint32(order.Intn(1000))
		}
		if _, used := func() (uint32, bool) {
			for _, v := range pending {
				if v == id {
					return v, true
				}
			}
			return 0, false
		}(); used {
			return
		}
		send(id, readResp(id, 0))
		r.Hit("peer:unsolicited")
	}
	skip := map[int]bool{}
	for ti, c := range todo {
		id := pending[c.marker]
		if skip[c.k] {
			r.Hit("plan:" + planNames[c.plan])
			continue
		}
		if order.Chance(25) {
			unsolicited()
		}
		switch c.plan {
		case pAnswer:
			// multi-chunk answers: alone (3–9 chunks of 300 bytes) or interleaved chunk by chunk with the next plain answer
			if order.Chance(40) {
				var mate *caller
				for _, d := range todo[ti+1:] {
					if d.plan == pAnswer && !skip[d.k] {
						mate = d
						break
					}
				}
				if mate != nil && order.Bool() {
					idB := pending[mate.marker]
					ra := bigResp(id, c.marker, 700+order.Intn(1800))
					serial++
					rb := bigResp(idB, mate.marker, 700+order.Intn(1800))
					serial--
					// arrival order = order of the final chunks
					da, _ := h.PeerChunksMSG(7, 3, id, ra, 300)
					db, _ := h.PeerChunksMSG(7, 3, idB, rb, 300)
					la, lb := len(da), len(db) // A's k-th chunk is written before B's k-th chunk
					if lb < la {
						// B completes first: it must carry the lower arrival number
						ra.ResponseHeader.Timestamp, rb.ResponseHeader.Timestamp = rb.ResponseHeader.Timestamp, ra.ResponseHeader.Timestamp
					}
					sendInterleaved(id, ra, idB, rb)
					serial += 2
					skip[mate.k] = true
					r.Hit("peer:interleaved-multi-chunk")
				} else {
					send(id, bigResp(id, c.marker, 700+order.Intn(1800)))
					r.Hit("peer:multi-chunk")
				}
				break
			}
			send(id, readResp(id, c.marker))
		case pFault:
			// the RequestHandle of a response is not what routes it: in half of the faults it names another
			// pending request (or nothing at all); the request id of the sequence header decides
			handle := id
			if order.Bool() {
				handle = 0x5eed0000 + uint32(order.Intn(100))
				for _, d := range todo[ti+1:] {
					if d.plan == pAnswer || d.plan == pLate || d.plan == pDrop {
						handle = pending[d.marker]
						break
					}
				}
				r.Hit("peer:fault-with-foreign-handle")
			}
			send(id, &ua.ServiceFault{ResponseHeader: hdr(handle, serial, ua.StatusBadNodeIDUnknown)})
		case pWrongType:
			send(id, &ua.BrowseResponse{ResponseHeader: hdr(id, serial, ua.StatusOK)})
		case pNotResp:
			send(id, &ua.ReadRequest{RequestHeader: &ua.RequestHeader{AuthenticationToken: ua.NewTwoByteNodeID(0), Timestamp: serialTime(serial), AdditionalHeader: ua.NewExtensionObject(nil)},
				NodesToRead: []*ua.ReadValueID{{NodeID: ua.NewNumericNodeID(0, 1), AttributeID: ua.AttributeIDValue, DataEncoding: &ua.QualifiedName{}}}})
		case pDup:
			send(id, readResp(id, c.marker))
			send(id, readResp(id, c.marker))
		case pDrop:
		case pLate:
			late = append(late, c)
		case pCancel:
			late = append(late, c)
		}
		r.Hit("plan:" + planNames[c.plan])
	}
	for _, c := range callers {
		if c.plan == pPreCancel {
			r.Hit("plan:precancel")
		}
	}
	// cancel the contexts of the "cancel" callers once they wait
	for _, c := range callers {
		if c.plan == pCancel {
			if _, ok := pending[c.marker]; ok {
				c.cancel()
			}
		}
	}
	// wait for everybody who is not answered late
	waitAll := func(cs []*caller, d time.Duration) bool {
		deadline := time.After(d)
		for _, c := range cs {
			select {
			case <-c.done:
			case <-deadline:
				return false
			}
		}
		return true
	}
	if !waitAll(callers, 15*time.Second) {
		e.blocked(caseName + ": callers did not return")
		for _, c := range callers {
			c.cancel()
		}
		waitAll(callers, 5*time.Second)
	}
	// late answers: their handlers are gone by now
	for _, c := range late {
		id := pending[c.marker]
		send(id, readResp(id, c.marker))
		r.Hit("peer:late-response")
	}
	// a final round trip makes sure the dispatcher has processed everything
	// (with an id nobody has used: ids leaked by pre-cancelled callers stay registered for ever)
	sc.VerifSetRequestIDLocked(0x40000000)
	ctl.Hook("harness.setctr", uint32(0x40000000))
	fin := mk(3)
	fin.plan = pAnswer
	fin.timeout = 6 * time.Second
	fin.ctx, fin.cancel = context.WithCancel(context.Background())
	start(fin)
	if !collect(1) {
		e.blocked(caseName + ": peer did not receive the final request")
		if os.Getenv("VERIF_DEBUG") != "" {
			for _, ev := range ctl.Events() {
				fmt.Fprintln(os.Stderr, ev.G, ev.Name, ev.Args)
			}
			for _, c := range callers {
				select {
				case <-c.done:
					fmt.Fprintln(os.Stderr, "caller", c.k, planNames[c.plan], c.err)
				default:
					fmt.Fprintln(os.Stderr, "caller", c.k, planNames[c.plan], "running")
				}
			}
		}
		return
	}
	send(pending[fin.marker], readResp(pending[fin.marker], fin.marker))
	if !waitAll([]*caller{fin}, 10*time.Second) {
		e.blocked(caseName + ": final caller did not return")
		return
	}
	// the dispatcher is back in Receive once it passed dispatch.afterWait of the final message
	ctl.WaitEvent(5*time.Second, func(ev *h.SendEv) bool {
		return ev.Name == "dispatch.afterWait" && ev.U32(0) == pending[fin.marker]
	})
	handlerIDs := sc.VerifHandlerIDs()
	evs := ctl.Events()
	uasc.VerifSetHook(nil)
	for _, c := range callers {
		c.cancel()
	}
	cli.Close()
	srv.Close()
	<-peerDone

	// ---------------------------------------------------------------- oracle on the implementation alone
	serialSeen := map[int64]int{}
	// Two requests can only share an id when at least 2^32-1 calls of nextRequestID lie
	// between them (theorem C18_ids_distinct_window; here: a forced counter move). A response
	// carries nothing but the request id, so for such a pair "its own response" means "a
	// response with its own request id"; for every other caller it means the response to its
	// very request (marker echoed by the peer).
	idUsers := map[uint32]int{}
	for _, ev := range evs {
		if ev.Name == "handlers.register" && ev.Bool(1) {
			idUsers[ev.U32(0)]++
		}
	}
	for _, c := range callers {
		if c.err == nil && c.handlerRan {
			own := reqIDOf(evs, goidToCaller, c.k)
			if c.gotHandle != own {
				r.Fail(caseName, "", fmt.Sprintf("caller %d (request id %d) succeeded with the response to request id %d", c.k, own, c.gotHandle))
			}
			if idUsers[own] == 1 && c.gotMarker != int64(c.marker) {
				r.Fail(caseName, "", fmt.Sprintf("caller %d (marker %d) succeeded with the response to marker %d (type %s)", c.k, c.marker, c.gotMarker, c.gotType))
			}
			if idUsers[own] > 1 {
				r.Hit("id-reused-after-release")
			}
		}
		if n, big := bulkLen[c.marker]; big && c.err == nil && c.handlerRan && c.gotBulk != n {
			r.Fail(caseName, "", fmt.Sprintf("caller %d got a multi-chunk response whose %d payload bytes are not its own (%d intact)", c.k, n, c.gotBulk))
		}
		if c.handlerRan && c.gotSerial >= 0 {
			if other, dup := serialSeen[c.gotSerial]; dup {
				r.Fail(caseName, "", fmt.Sprintf("response #%d was handed to callers %d and %d", c.gotSerial, other, c.k))
			}
			serialSeen[c.gotSerial] = c.k
		}
		if c.handlerRan && c.gotType != "*ua.ReadResponse" && c.gotType != "*ua.ServiceFault" && c.err == nil {
			r.Fail(caseName, "", fmt.Sprintf("caller %d got a %s for a ReadRequest and no error", c.k, c.gotType))
		}
		if c.err == nil && !c.handlerRan && !dupExpected[c.k] {
			r.Fail(caseName, "", fmt.Sprintf("caller %d (plan %s) returned without error although its handler was never given a response", c.k, planNames[c.plan]))
		}
		if c.plan == pFault && c.err != ua.StatusBadNodeIDUnknown && c.err != ua.StatusBadTimeout && !dupExpected[c.k] &&
			!(c.err != nil && strings.Contains(c.err.Error(), "duplicate handler registration")) {
			r.Fail(caseName, "", fmt.Sprintf("caller %d was answered with a ServiceFault (BadNodeIDUnknown) under its request id and returned %v", c.k, c.err))
		}
		if (c.plan == pAnswer || c.plan == pDup) && c.err != nil && c.err != ua.StatusBadTimeout && !dupExpected[c.k] &&
			!strings.Contains(c.err.Error(), "duplicate handler registration") {
			r.Fail(caseName, "", fmt.Sprintf("caller %d was answered with its own good response and returned an error that is not its own: %v", c.k, c.err))
		}
		if c.plan == pNotResp && c.err == nil {
			r.Fail(caseName, "", fmt.Sprintf("caller %d was answered with a message that is not a response and got no error", c.k))
		}
		if c.handlerRan && c.gotType == "*ua.ServiceFault" && c.err == nil {
			r.Fail(caseName, "", fmt.Sprintf("caller %d got a ServiceFault and no error", c.k))
		}
		if dupExpected[c.k] {
			if c.err == nil || !strings.Contains(c.err.Error(), "duplicate handler registration") {
				r.Fail(caseName, "", fmt.Sprintf("caller %d drew a request id that was still pending and was not refused (err=%v)", c.k, c.err))
			}
			r.Hit("outcome:refused-duplicate")
			continue
		}
		switch {
		case c.err == nil:
			r.Hit("outcome:ok")
		case strings.Contains(c.err.Error(), "duplicate handler registration"):
			r.Hit("outcome:refused-duplicate")
		case c.err == ua.StatusBadTimeout:
			r.Hit("outcome:timeout")
		case c.err == context.Canceled:
			r.Hit("outcome:cancelled")
		case c.assignErr != nil:
			r.Hit("outcome:wrong-type-error")
		default:
			r.Hit("outcome:error")
		}
		// a planned, timely, well-typed answer that did not arrive is a timing problem of the run
		if (c.plan == pAnswer || c.plan == pDup) && c.err != nil && r.InfraError == "" &&
			!strings.Contains(c.err.Error(), "duplicate handler registration") {
			r.InfraError = fmt.Sprintf("%s: caller %d (plan answer) failed: %v", caseName, c.k, c.err)
		}
	}

	// ---------------------------------------------------------------- trace → labels → model
	labels, note := buildLabels(evs, goidToCaller, seedID, callers)
	if note != "" {
		r.Disagree(caseName, "trace cannot be linearised: "+note, "events recorded")
		return
	}
	nontrivial := false
	for _, l := range labels {
		if strings.HasPrefix(l, "pop ") && strings.HasSuffix(l, " 1") {
			nontrivial = true
		}
	}
	r.Count(caseName+" "+strings.Join(labels, ";"), nontrivial)
	r.Sample(fmt.Sprintf("%s seed=%d callers=%d labels=%d: %s", caseName, seedID, len(callers), len(labels), strings.Join(labels, "; ")))
	for _, l := range labels {
		r.Hit("label:" + strings.Fields(l)[0])
	}
	if e.d == nil {
		return
	}
	e.d.Ask(fmt.Sprintf("reset %d", seedID))
	for i, l := range labels {
		a := e.d.Ask("lts " + l)
		if a != "ok" {
			r.Disagree(caseName, fmt.Sprintf("%s at step %d `%s` of %s", a, i, l, strings.Join(labels, ";")), "step taken by the implementation")
			return
		}
	}
	r.TracesValidated++
	// who got what: every caller that took a message off its channel (wait.msg), with the request id it
	// registered and — where the handler was given a response carrying one — the arrival number
	tookMsg := map[int]bool{}
	for _, ev := range evs {
		if ev.Name == "wait.msg" {
			if k, ok := goidToCaller[ev.G]; ok {
				tookMsg[k] = true
			}
		}
	}
	model := e.d.Ask("summary")
	f := strings.Fields(model)
	mdl := map[int][2]int64{}
	if d := strings.TrimPrefix(f[0], "delivered="); d != "-" {
		for _, x := range strings.Split(d, ",") {
			var k int
			var id, ser int64
			fmt.Sscanf(x, "%d:%d:%d", &k, &id, &ser)
			mdl[k] = [2]int64{id, ser}
		}
	}
	for _, c := range callers {
		m, inModel := mdl[c.k]
		if inModel != tookMsg[c.k] {
			r.Disagree(fmt.Sprintf("%s caller %d took a message", caseName, c.k), fmt.Sprint(inModel), fmt.Sprint(tookMsg[c.k]))
			continue
		}
		if !inModel {
			continue
		}
		if own := int64(reqIDOf(evs, goidToCaller, c.k)); m[0] != own {
			r.Disagree(fmt.Sprintf("%s caller %d request id", caseName, c.k), fmt.Sprint(m[0]), fmt.Sprint(own))
		}
		if c.handlerRan && c.gotSerial >= 0 && m[1] != c.gotSerial {
			r.Disagree(fmt.Sprintf("%s caller %d arrival number", caseName, c.k), fmt.Sprint(m[1]), fmt.Sprint(c.gotSerial))
		}
	}
	if len(f) >= 3 && f[2] != "full=0" {
		r.Disagree(caseName+" summary", f[2], "full=0")
	}
	// handler table
	inTable := map[uint32]bool{}
	for _, id := range handlerIDs {
		inTable[id] = true
	}
	ids := map[uint32]bool{}
	for _, ev := range evs {
		if ev.Name == "handlers.register" || ev.Name == "handlers.pop" {
			ids[ev.U32(0)] = true
		}
	}
	for id := range ids {
		m := e.d.Ask(fmt.Sprintf("handler %d", id))
		impl := "none"
		if inTable[id] {
			impl = "some"
		}
		if (m == "none") != (impl == "none") {
			r.Disagree(fmt.Sprintf("%s handler %d", caseName, id), m, impl)
		}
		delete(inTable, id)
	}
	for id := range inTable {
		r.Disagree(fmt.Sprintf("%s handler %d", caseName, id), "never registered", "some")
	}
}

func reqIDOf(evs []h.SendEv, g2c map[int64]int, k int) uint32 {
	for _, ev := range evs {
		if ev.Name == "send.pendAdd" {
			if kk, ok := g2c[ev.G]; ok && kk == k {
				return ev.U32(0)
			}
		}
	}
	return 0
}

// buildLabels projects the recorded events to the labels of the handler
// LTS. The calls of nextRequestID carry no event of their own (the function
// is machine-translated and must stay in the translatable fragment); their
// order is the order of the values they returned, so the `nextid` labels are
// inserted in counter order, each no later than the first event of its caller
// that shows the id.
func buildLabels(evs []h.SendEv, g2c map[int64]int, seed uint32, callers []*caller) ([]string, string) {
	var out []string
	cnt := seed
	idOf := map[int]uint32{} // caller -> id
	issued := map[int]bool{} // nextid label emitted
	registered := map[int]bool{}
	waited := map[int]bool{}
	for _, ev := range evs {
		if ev.Name == "send.pendAdd" {
			if k, ok := g2c[ev.G]; ok {
				idOf[k] = ev.U32(0)
			}
		}
	}
	// callers by id, in the order of their pendAdd events
	byID := map[uint32][]int{}
	for _, ev := range evs {
		if ev.Name == "send.pendAdd" {
			if k, ok := g2c[ev.G]; ok {
				byID[ev.U32(0)] = append(byID[ev.U32(0)], k)
			}
		}
	}
	for _, ev := range evs {
		k, isCaller := g2c[ev.G]
		switch ev.Name {
		case "harness.setctr":
			out = append(out, fmt.Sprintf("setctr %d", ev.U32(0)))
			cnt = ev.U32(0)
		case "send.pendAdd":
			if !isCaller {
				return nil, "send.pendAdd from an unknown goroutine"
			}
			if issued[k] {
				continue
			}
			for steps := 0; !issued[k]; steps++ {
				if steps > 64 {
					return nil, fmt.Sprintf("id %d of caller %d is not reachable from the counter", idOf[k], k)
				}
				cnt = nextID(cnt)
				owner := -1
				for _, c := range byID[cnt] {
					if !issued[c] {
						owner = c
						break
					}
				}
				if owner < 0 {
					return nil, fmt.Sprintf("nobody drew id %d", cnt)
				}
				issued[owner] = true
				out = append(out, fmt.Sprintf("nextid %d %d", owner, cnt))
			}
		case "handlers.register":
			if !isCaller {
				return nil, "handlers.register from an unknown goroutine"
			}
			b := 0
			if ev.Bool(1) {
				b = 1
				registered[k] = true
			}
			out = append(out, fmt.Sprintf("register %d %d", k, b))
		case "handlers.pop":
			b := 0
			if ev.Bool(1) {
				b = 1
			}
			if isCaller {
				out = append(out, fmt.Sprintf("abandon %d %d", k, b))
			} else {
				out = append(out, fmt.Sprintf("pop %d %d", ev.U32(0), b))
			}
		case "dispatch.beforeSend":
			out = append(out, "deliver")
		case "dispatch.sendFull":
			out = append(out, "sendfull")
		case "wait.begin":
			if isCaller {
				waited[k] = true
			}
		case "wait.msg":
			if !isCaller {
				return nil, "wait.msg from an unknown goroutine"
			}
			out = append(out, fmt.Sprintf("recv %d", k))
		case "harness.return":
			// a send that failed after the registration has released its slot itself
			// (deferred popHandler in sendAsyncWithTimeout = an `abandon` label above)
		}
	}
	return out, ""
}

// forcedLate: the dispatcher has popped the handler of caller A and is about to hand the response over when A
// times out and returns; caller B then registers and waits. The late hand-over must not reach B.
// (one P only, so that anything the library recycles per P would be handed to B)
func (e *env) forcedLate() {
	name := "forced-late-handover"
	r := e.r
	old := runtime.GOMAXPROCS(1)
	defer runtime.GOMAXPROCS(old)
	cli, srv, cleanup, err := h.SendLoopback()
	if err != nil {
		r.InfraError = "loopback: " + err.Error()
		return
	}
	defer cleanup()
	errch := make(chan error, 64)
	sc, err := uasc.VerifOpenChannel(cli, h.NoneConfig(40, 50*time.Millisecond), false, 7, 3, 900, nil, nil, errch)
	if err != nil {
		r.InfraError = "VerifOpenChannel: " + err.Error()
		return
	}
	ctl := h.NewSendCtl()
	uasc.VerifSetHook(ctl.Hook)
	defer func() { uasc.VerifSetHook(nil); ctl.ReleaseAll() }()
	sc.VerifStartDispatcher()
	reqs := make(chan peerReq, 16)
	go func() {
		for {
			c, err := h.PeerRead(srv)
			if err != nil {
				return
			}
			if _, svc, err := ua.DecodeService(c.Body); err == nil {
				if rr, ok := svc.(*ua.ReadRequest); ok && len(rr.NodesToRead) == 1 {
					reqs <- peerReq{c.ReqID, rr.NodesToRead[0].NodeID.IntID()}
				}
			}
		}
	}()
	var seq uint32 = 100
	answer := func(q peerReq, serial int) {
		h.PeerSendMSG(srv, 7, 3, &seq, q.reqID, &ua.ReadResponse{ResponseHeader: hdr(q.reqID, serial, ua.StatusOK),
			Results: []*ua.DataValue{{EncodingMask: ua.DataValueValue, Value: ua.MustVariant(int64(q.marker))}}}, 8000)
	}
	type res struct {
		err    error
		handle uint32
		marker int64
		ran    bool
	}
	goids := map[int64]int{}
	var gmu sync.Mutex
	run := func(k int, timeout time.Duration) chan res {
		out := make(chan res, 1)
		go func() {
			gmu.Lock()
			goids[h.GoID()] = k
			gmu.Unlock()
			var x res
			x.marker = -1
			x.err = sc.SendRequestWithTimeout(context.Background(), readReq(k), nil, timeout, func(v ua.Response) error {
				x.ran = true
				if rr, ok := v.(*ua.ReadResponse); ok {
					x.handle = rr.ResponseHeader.RequestHandle
					if len(rr.Results) == 1 {
						x.marker = rr.Results[0].Value.Int()
					}
				}
				return nil
			})
			ctl.Hook("harness.return", k)
			out <- x
		}()
		return out
	}
	hold := ctl.BlockAt(func(ev *h.SendEv) bool { return ev.Name == "dispatch.afterPop" && ev.Bool(1) })
	ra := run(0, 30*time.Millisecond)
	var qa peerReq
	select {
	case qa = <-reqs:
	case <-time.After(20 * time.Second):
		e.blocked(name + ": peer did not receive request A")
		return
	}
	answer(qa, 0)
	if hold.WaitReached(20*time.Second) == nil {
		r.InfraError = name + ": dispatcher did not pop A's handler (A timed out first: machine slow)"
		return
	}
	var xa res
	select {
	case xa = <-ra: // timer: A returns without its response
	case <-time.After(30 * time.Second):
		r.Fail(name, "", "caller A (timeout 30 ms) did not return")
		return
	}
	rb := run(1, 10*time.Second)
	var qb peerReq
	select {
	case qb = <-reqs:
	case <-time.After(20 * time.Second):
		e.blocked(name + ": peer did not receive request B")
		return
	}
	hold.Release() // the dispatcher now hands A's response over
	ctl.WaitEvent(20*time.Second, func(ev *h.SendEv) bool { return ev.Name == "dispatch.afterWait" && ev.U32(0) == qa.reqID })
	answer(qb, 1)
	var xb res
	select {
	case xb = <-rb:
	case <-time.After(30 * time.Second):
		r.Fail(name, "", "caller B did not return")
		return
	}
	evs := ctl.Events()
	uasc.VerifSetHook(nil)
	r.Hit("scenario:forced-late-handover")
	// oracle
	if xa.err == nil && xa.ran && xa.handle != qa.reqID {
		r.Fail(name, "", fmt.Sprintf("caller A (request id %d) got the response to request id %d", qa.reqID, xa.handle))
	}
	if xb.err != nil || !xb.ran {
		r.Fail(name, "", fmt.Sprintf("caller B did not get its response: err=%v", xb.err))
	} else if xb.handle != qb.reqID || xb.marker != int64(qb.marker) {
		r.Fail(name, "", fmt.Sprintf("caller B (request id %d) was handed the response to request id %d (the late response to A, whose call had already returned)", qb.reqID, xb.handle))
	}
	// model
	callers := []*caller{{k: 0}, {k: 1}}
	labels, note := buildLabels(evs, goids, 40, callers)
	if note != "" {
		r.Disagree(name, "trace cannot be linearised: "+note, "events recorded")
		return
	}
	r.Count(name+" "+strings.Join(labels, ";"), true)
	r.Sample(name + ": " + strings.Join(labels, "; "))
	if e.d == nil {
		return
	}
	e.d.Ask("reset 40")
	for i, l := range labels {
		if a := e.d.Ask("lts " + l); a != "ok" {
			r.Disagree(name, fmt.Sprintf("%s at step %d `%s` of %s", a, i, l, strings.Join(labels, ";")), "step taken by the implementation")
			return
		}
	}
	r.TracesValidated++
}

func (e *env) corpusAndTypes() {
	// safeAssign on pairs of response types: real function vs model
	resp := []ua.Response{&ua.ReadResponse{}, &ua.BrowseResponse{}, &ua.ServiceFault{}, &ua.WriteResponse{}, &ua.CreateSessionResponse{}}
	for _, got := range resp {
		for j := range resp {
			var err error
			switch j {
			case 0:
				var res *ua.ReadResponse
				err = opcua.VerifSafeAssign(got, &res)
				if err == nil && res != got {
					e.r.Fail("safeassign", "", "assigned value differs")
				}
			case 1:
				var res *ua.BrowseResponse
				err = opcua.VerifSafeAssign(got, &res)
			case 2:
				var res *ua.ServiceFault
				err = opcua.VerifSafeAssign(got, &res)
			case 3:
				var res *ua.WriteResponse
				err = opcua.VerifSafeAssign(got, &res)
			case 4:
				var res *ua.CreateSessionResponse
				err = opcua.VerifSafeAssign(got, &res)
			}
			impl := "ok"
			if err != nil {
				impl = "err"
			}
			c := fmt.Sprintf("safeassign %d %d", ua.ServiceTypeID(got), ua.ServiceTypeID(resp[j]))
			e.r.Count(c, true)
			e.r.Hit("safeassign:" + impl)
			e.r.Compare(e.d, c, impl)
			// oracle: a response of another type must be an error
			if (ua.ServiceTypeID(got) != ua.ServiceTypeID(resp[j])) != (err != nil) {
				e.r.Fail(c, "", "typed assignment accepted a response of another type (or refused its own)")
			}
		}
	}
	// corpus: model-only traces  `trace <counter>|<label>;…|<expected summary>`
	for _, line := range e.o.CorpusLines() {
		if !strings.HasPrefix(line, "trace ") || e.d == nil {
			continue
		}
		parts := strings.Split(strings.TrimPrefix(line, "trace "), "|")
		if len(parts) != 3 {
			continue
		}
		e.d.Ask("reset " + strings.TrimSpace(parts[0]))
		res := "ok"
		for _, l := range strings.Split(parts[1], ";") {
			if a := e.d.Ask("lts " + strings.TrimSpace(l)); a != "ok" {
				res = a
				break
			}
		}
		if res == "ok" {
			res = e.d.Ask("summary")
		}
		e.r.Count(line, true)
		e.r.Hit("corpus")
		if res != strings.TrimSpace(parts[2]) {
			e.r.Disagree(line, res, strings.TrimSpace(parts[2]))
		}
	}
}

// blocked records that the implementation did not get to a point it has to reach (or did something it must
// not do) within the generous time allowed: the scenario is the failing input. Only trouble that says nothing
// about the library (sockets, keys, the driver, a machine too slow for a timing verdict) is reported as infra.
func (e *env) blocked(what string) {
	e.r.Fail(what, "", "the implementation did not complete this step (it blocks, or the step got lost): "+what)
}

// hasNew: an unclassified oracle failure or a model disagreement has been recorded — the verdict of the run is
// settled, the remaining (real-time) scenarios are skipped so that the failing input is reported quickly.
func (e *env) hasNew() bool {
	// (a model disagreement alone does not stop the run: the later scenarios may still produce the concrete failing input)
	for _, f := range e.r.OracleFailures {
		if f.Sig == "" {
			return true
		}
	}
	return false
}

func main() {
	o := h.ParseOpts()
	r := h.NewResult("C18", o)
	d, err := h.StartDriver(o.Driver)
	if err != nil {
		r.InfraError = err.Error()
		r.Write(o.Out)
		return
	}
	defer d.Close()
	_ = uacp.DefaultClientACK
	e := &env{o, r, d}
	r.Rule = "case = one channel scenario (3–16 concurrent callers of the real SendRequestWithTimeout over loopback TCP, request id seed near 2^32, scripted peer: reorder / drop / late / duplicate / unsolicited / fault / wrong type, forced wrap-around collision in 60 % of the scenarios); the recorded verifPoint events are replayed label by label through the Lean LTS and the final delivery relation and handler table are compared; non-trivial = at least one response was delivered to a handler; distinct by the full label sequence. Plus safeAssign on 25 type pairs and the corpus traces."
	e.corpusAndTypes()
	if o.Replay != "" {
		var seed uint64
		var idx int
		if _, err := fmt.Sscanf(o.Replay, "scenario %d %d", &seed, &idx); err == nil {
			e.scenario(seed, idx)
		} else if strings.HasPrefix(o.Replay, "forced-late") {
			e.forcedLate()
		}
		r.Write(o.Out)
		return
	}
	e.forcedLate()
	n := o.N(60, 1200)
	t0 := time.Now()
	for i := 0; i < n && r.InfraError == "" && !e.hasNew(); i++ {
		e.scenario(o.Seed, i)
		if !o.Thorough() && time.Since(t0) > 60*time.Second {
			r.Notes = append(r.Notes, fmt.Sprintf("stopped after %d scenarios (time budget)", i+1))
			break
		}
	}
	for _, b := range []string{"label:setctr", "label:nextid", "label:register", "label:pop", "label:deliver", "label:recv", "label:abandon",
		"outcome:ok", "outcome:timeout", "outcome:cancelled", "outcome:wrong-type-error", "outcome:refused-duplicate", "peer:unsolicited", "peer:late-response", "plan:notresponse", "scenario:forced-late-handover", "peer:multi-chunk", "peer:interleaved-multi-chunk", "peer:fault-with-foreign-handle"} {
		if r.Distribution[b] == 0 {
			r.Unreached = append(r.Unreached, b)
		}
	}
	r.Write(o.Out)
}
