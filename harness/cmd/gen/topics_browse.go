package main

import (
	"fmt"
	"io"
	"log"
	"sort"
	"strings"

	"github.com/gopcua/opcua/id"
	"github.com/gopcua/opcua/server"
	"github.com/gopcua/opcua/ua"
)

func init() {
	register("reftypes", "RefTypes.lean", genRefTypes)
}

// genRefTypes evaluates server.New() (the code imports the standard nodeset
// and builds the address space) and dumps the forward HasSubtype forest
// reachable from every ReferenceType node of namespace 0 — the graph
// getSubRefs walks — together with a rank (height) table that Lean checks.
func genRefTypes(repo string) (string, error) {
	log.SetOutput(io.Discard)
	s := server.New()
	ns, err := s.Namespace(0)
	if err != nil {
		return "", err
	}
	n0, ok := ns.(*server.NodeNameSpace)
	if !ok {
		return "", fmt.Errorf("namespace 0 is a %T", ns)
	}
	key := func(n *ua.NodeID) (uint32, error) {
		switch n.Type() {
		case ua.NodeIDTypeTwoByte, ua.NodeIDTypeFourByte, ua.NodeIDTypeNumeric:
			if n.Namespace() == 0 {
				return n.IntID(), nil
			}
		}
		return 0, fmt.Errorf("node id %s is not a namespace-0 numeric id", n)
	}
	subs := map[uint32][]uint32{}
	var order []uint32
	var visit func(nid *ua.NodeID, depth int) error
	visit = func(nid *ua.NodeID, depth int) error {
		if depth > 200 {
			return fmt.Errorf("HasSubtype chain deeper than 200 at %s (cycle?)", nid)
		}
		k, err := key(nid)
		if err != nil {
			return err
		}
		if _, done := subs[k]; done {
			return nil
		}
		subs[k] = []uint32{}
		order = append(order, k)
		n := n0.Node(nid)
		if n == nil {
			return nil
		}
		for _, r := range n.VerifRefs() {
			if r.ReferenceTypeID.Equal(ua.NewNumericNodeID(0, id.HasSubtype)) && r.IsForward && r.NodeID != nil {
				c, err := key(r.NodeID.NodeID)
				if err != nil {
					return err
				}
				subs[k] = append(subs[k], c)
				if err := visit(r.NodeID.NodeID, depth+1); err != nil {
					return err
				}
			}
		}
		return nil
	}
	nrt := 0
	for _, nid := range n0.VerifNodeIDs() {
		if n := n0.Node(nid); n != nil && n.NodeClass() == ua.NodeClassReferenceType {
			nrt++
			if err := visit(nid, 0); err != nil {
				return "", err
			}
		}
	}
	if nrt == 0 {
		return "", fmt.Errorf("no ReferenceType node in namespace 0")
	}
	sort.Slice(order, func(i, j int) bool { return order[i] < order[j] })
	rank := map[uint32]int{}
	var height func(k uint32) int
	height = func(k uint32) int {
		if h, ok := rank[k]; ok {
			return h
		}
		h := 0
		for _, c := range subs[k] {
			if x := height(c) + 1; x > h {
				h = x
			}
		}
		rank[k] = h
		return h
	}
	maxRank := 0
	for _, k := range order {
		if h := height(k); h > maxRank {
			maxRank = h
		}
	}
	var sb strings.Builder
	sb.WriteString("namespace Opcua.Gen\n\n")
	sb.WriteString("/-- (node, direct forward HasSubtype targets in the order of node.refs) for every node reachable\n    from a ReferenceType node of the address space `server.New()` builds -/\n")
	sb.WriteString("def refTypeSubs : List (Nat × List Nat) := [\n")
	for i, k := range order {
		cs := make([]string, len(subs[k]))
		for j, c := range subs[k] {
			cs[j] = fmt.Sprint(c)
		}
		sep := ","
		if i == len(order)-1 {
			sep = ""
		}
		fmt.Fprintf(&sb, "  (%d, [%s])%s\n", k, strings.Join(cs, ", "), sep)
	}
	sb.WriteString("]\n\n/-- height of every node in the forest (checked by Lean, not trusted) -/\ndef refTypeRank : List (Nat × Nat) := [\n")
	for i, k := range order {
		sep := ","
		if i == len(order)-1 {
			sep = ""
		}
		fmt.Fprintf(&sb, "  (%d, %d)%s\n", k, rank[k], sep)
	}
	fmt.Fprintf(&sb, "]\n\n/-- recursion depth that suffices: maximal height + 1 -/\ndef refTypeFuel : Nat := %d\n\n", maxRank+1)
	fmt.Fprintf(&sb, "/-- id.HasSubtype -/\ndef hasSubtypeId : Nat := %d\n\n/-- id.HasTypeDefinition -/\ndef hasTypeDefinitionId : Nat := %d\n\n", id.HasSubtype, id.HasTypeDefinition)
	fmt.Fprintf(&sb, "def refTypeCount : Nat := %d\n\nend Opcua.Gen\n", nrt)
	return sb.String(), nil
}
