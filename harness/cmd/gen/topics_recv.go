package main

// Generator topics of the receive-path properties (C12, C10, C13, C20):
// facts read from the source with go/ast.

import (
	"bytes"
	"fmt"
	"go/ast"
	"go/parser"
	"go/printer"
	"go/token"
	"path/filepath"
	"strings"
)

func init() {
	register("recvfacts", "RecvFacts.lean", genRecvFacts)
}

func recvParse(repo, rel string) (*token.FileSet, *ast.File, error) {
	fset := token.NewFileSet()
	f, err := parser.ParseFile(fset, filepath.Join(repo, rel), nil, parser.ParseComments)
	return fset, f, err
}

func recvFunc(f *ast.File, recv, name string) *ast.FuncDecl {
	for _, d := range f.Decls {
		fd, ok := d.(*ast.FuncDecl)
		if !ok || fd.Name.Name != name {
			continue
		}
		if recv == "" && fd.Recv == nil {
			return fd
		}
		if fd.Recv != nil && len(fd.Recv.List) == 1 {
			t := fd.Recv.List[0].Type
			if s, ok := t.(*ast.StarExpr); ok {
				t = s.X
			}
			if id, ok := t.(*ast.Ident); ok && id.Name == recv {
				return fd
			}
		}
	}
	return nil
}

func recvSrc(fset *token.FileSet, n ast.Node) string {
	var b bytes.Buffer
	printer.Fprint(&b, fset, n)
	return strings.Join(strings.Fields(b.String()), " ")
}

// genRecvFacts reads the two limit checks of SecureChannel.Receive: the
// condition of the `if` whose body raises "too many chunks" / "message too
// large" must be `[L() != 0 &&] uint32(x) > L()`; the fact generated is whether
// the zero guard is present.
func genRecvFacts(repo string) (string, error) {
	fset, f, err := recvParse(repo, "uasc/secure_channel.go")
	if err != nil {
		return "", err
	}
	fd := recvFunc(f, "SecureChannel", "Receive")
	if fd == nil {
		return "", fmt.Errorf("SecureChannel.Receive not found")
	}
	find := func(msg, limit string) (bool, string, error) {
		var cond string
		n := 0
		ast.Inspect(fd.Body, func(x ast.Node) bool {
			is, ok := x.(*ast.IfStmt)
			if !ok {
				return true
			}
			if strings.Contains(recvSrc(fset, is.Body), msg) && !strings.Contains(recvSrc(fset, is.Body), "switch") {
				c := is.Cond
				if is.Init != nil {
					cond = recvSrc(fset, is.Init) + "; "
				} else {
					cond = ""
				}
				cond += recvSrc(fset, c)
				n++
			}
			return true
		})
		if n != 1 {
			return false, "", fmt.Errorf("expected one `if` raising %q in Receive, found %d", msg, n)
		}
		c := cond
		if i := strings.Index(c, "; "); i >= 0 {
			c = c[i+2:]
		}
		plain := strings.HasPrefix(c, "uint32(") && strings.HasSuffix(c, " > s.c."+limit+"()") && !strings.Contains(c, "&&") && !strings.Contains(c, "||")
		guarded := strings.HasPrefix(c, "s.c."+limit+"() != 0 && uint32(") && strings.HasSuffix(c, " > s.c."+limit+"()") && strings.Count(c, "&&") == 1 && !strings.Contains(c, "||")
		switch {
		case plain:
			return false, cond, nil
		case guarded:
			return true, cond, nil
		}
		return false, cond, fmt.Errorf("limit check %q has an unexpected shape: %s", msg, cond)
	}
	c0, cc, err := find("too many chunks", "MaxChunkCount")
	if err != nil {
		return "", err
	}
	s0, sc, err := find("message too large", "MaxMessageSize")
	if err != nil {
		return "", err
	}
	// the client's validation of the server's Acknowledge in uacp.Conn.Handshake:
	//   if ack.ReceiveBufSize < minBufSize || ack.SendBufSize < minBufSize { … return error }
	//   if hel.ReceiveBufSize != 0 && ack.ReceiveBufSize > hel.ReceiveBufSize { ack.ReceiveBufSize = hel.ReceiveBufSize }
	// absent → 0 / false (the code before the repair)
	ackMin, ackCapped, ackSeen := 0, false, "Handshake has no check of the Acknowledge buffer sizes"
	if fsetC, conn, err := recvParse(repo, "uacp/conn.go"); err == nil {
		minVal := 0
		ast.Inspect(conn, func(n ast.Node) bool {
			if vs, ok := n.(*ast.ValueSpec); ok && len(vs.Names) == 1 && vs.Names[0].Name == "minBufSize" && len(vs.Values) == 1 {
				fmt.Sscan(recvSrc(fsetC, vs.Values[0]), &minVal)
			}
			return true
		})
		if hs := recvFunc(conn, "Conn", "Handshake"); hs != nil {
			ast.Inspect(hs.Body, func(n ast.Node) bool {
				is, ok := n.(*ast.IfStmt)
				if !ok {
					return true
				}
				c := recvSrc(fsetC, is.Cond)
				body := recvSrc(fsetC, is.Body)
				if c == "ack.ReceiveBufSize < minBufSize || ack.SendBufSize < minBufSize" && strings.Contains(body, "return errors.Errorf(") {
					ackMin, ackSeen = minVal, c
				}
				if c == "hel.ReceiveBufSize != 0 && ack.ReceiveBufSize > hel.ReceiveBufSize" && body == "{ ack.ReceiveBufSize = hel.ReceiveBufSize }" {
					ackCapped = true
				}
				return true
			})
		}
	}
	var sb strings.Builder
	sb.WriteString("namespace Opcua.Gen.RecvFacts\n\n")
	fmt.Fprintf(&sb, "/-- uacp.Conn.Handshake refuses an Acknowledge whose receive or send buffer size is below this value (`%s`; 0 = no check) -/\ndef ackMinBufSize : Nat := %d\n\n", ackSeen, ackMin)
	fmt.Fprintf(&sb, "/-- … and never adopts a receive buffer size larger than the one of its own Hello (when that is not 0) -/\ndef ackRcvCappedByHello : Bool := %v\n\n", ackCapped)
	fmt.Fprintf(&sb, "/-- `if %s` in SecureChannel.Receive: the zero guard is present -/\ndef chunkLimitZeroUnlimited : Bool := %v\n\n", cc, c0)
	fmt.Fprintf(&sb, "/-- `if %s` in SecureChannel.Receive: the zero guard is present -/\ndef sizeLimitZeroUnlimited : Bool := %v\n\n", sc, s0)
	sb.WriteString("end Opcua.Gen.RecvFacts\n")
	return sb.String(), nil
}

// ---------------------------------------------------------------- recvalias (C20)

func init() {
	register("recvalias", "RecvAlias.lean", genRecvAlias)
}

func recvIsByteSliceOrBuffer(fset *token.FileSet, t ast.Expr) bool {
	s := recvSrc(fset, t)
	switch s {
	case "[]byte", "[]uint8", "bytes.Buffer", "*bytes.Buffer", "[][]byte", "*bufio.Reader", "*bufio.Writer", "bufio.Reader", "sync.Pool", "*sync.Pool":
		return true
	}
	return false
}

// recvStructHasBufferField reports the names of buffer-like fields of a struct type.
func recvStructBufferFields(fset *token.FileSet, f *ast.File, name string) ([]string, bool) {
	var out []string
	found := false
	ast.Inspect(f, func(n ast.Node) bool {
		ts, ok := n.(*ast.TypeSpec)
		if !ok || ts.Name.Name != name {
			return true
		}
		st, ok := ts.Type.(*ast.StructType)
		if !ok {
			return true
		}
		found = true
		for _, fl := range st.Fields.List {
			if recvIsByteSliceOrBuffer(fset, fl.Type) {
				for _, n := range fl.Names {
					out = append(out, name+"."+n.Name)
				}
				if len(fl.Names) == 0 {
					out = append(out, name+".(embedded "+recvSrc(fset, fl.Type)+")")
				}
			}
		}
		return false
	})
	return out, found
}

func genRecvAlias(repo string) (string, error) {
	var sb strings.Builder
	var notes []string

	// (1) Conn.Receive: first statement `b := make([]byte, …)`, every result is nil or a slice of b, b is stored nowhere
	fset, conn, err := recvParse(repo, "uacp/conn.go")
	if err != nil {
		return "", err
	}
	rf := recvFunc(conn, "Conn", "Receive")
	if rf == nil || len(rf.Body.List) == 0 {
		return "", fmt.Errorf("uacp.Conn.Receive not found")
	}
	recvMakes := false
	bufName := ""
	if as, ok := rf.Body.List[0].(*ast.AssignStmt); ok && as.Tok == token.DEFINE && len(as.Lhs) == 1 && len(as.Rhs) == 1 {
		if id, ok := as.Lhs[0].(*ast.Ident); ok {
			if call, ok := as.Rhs[0].(*ast.CallExpr); ok {
				if fn, ok := call.Fun.(*ast.Ident); ok && fn.Name == "make" && len(call.Args) >= 2 && recvSrc(fset, call.Args[0]) == "[]byte" {
					recvMakes, bufName = true, id.Name
				}
			}
		}
	}
	if recvMakes {
		ast.Inspect(rf.Body, func(n ast.Node) bool {
			switch x := n.(type) {
			case *ast.ReturnStmt:
				if len(x.Results) == 2 {
					r := recvSrc(fset, x.Results[0])
					if r != "nil" && !strings.HasPrefix(r, bufName+"[") && r != bufName {
						recvMakes = false
						notes = append(notes, "Conn.Receive returns "+r)
					}
				}
			case *ast.AssignStmt:
				for i, l := range x.Lhs {
					if _, isSel := l.(*ast.SelectorExpr); isSel && i < len(x.Rhs) && strings.Contains(recvSrc(fset, x.Rhs[i]), bufName) {
						recvMakes = false
						notes = append(notes, "Conn.Receive stores the buffer: "+recvSrc(fset, x))
					}
				}
				if x.Tok == token.ASSIGN {
					for _, l := range x.Lhs {
						if id, ok := l.(*ast.Ident); ok && id.Name == bufName {
							recvMakes = false
							notes = append(notes, "Conn.Receive re-assigns the buffer: "+recvSrc(fset, x))
						}
					}
				}
			}
			return true
		})
	} else {
		notes = append(notes, "Conn.Receive does not start with `b := make([]byte, …)`: "+recvSrc(fset, rf.Body.List[0]))
	}

	// (2) no buffer-like fields in Conn, SecureChannel, channelInstance
	noFields := true
	fsetS, sc, err := recvParse(repo, "uasc/secure_channel.go")
	if err != nil {
		return "", err
	}
	fsetI, inst, err := recvParse(repo, "uasc/secure_channel_instance.go")
	if err != nil {
		return "", err
	}
	for _, q := range []struct {
		fs   *token.FileSet
		f    *ast.File
		name string
	}{{fset, conn, "Conn"}, {fsetS, sc, "SecureChannel"}, {fsetI, inst, "channelInstance"}} {
		fields, found := recvStructBufferFields(q.fs, q.f, q.name)
		if !found {
			return "", fmt.Errorf("struct %s not found", q.name)
		}
		if len(fields) > 0 {
			noFields = false
			notes = append(notes, "buffer-like fields: "+strings.Join(fields, ", "))
		}
	}

	// (3) no sync.Pool in the non-test files of uacp, uasc, ua
	noPool := true
	for _, dir := range []string{"uacp", "uasc", "ua"} {
		files, _ := filepath.Glob(filepath.Join(repo, dir, "*.go"))
		for _, fn := range files {
			if strings.HasSuffix(fn, "_test.go") || strings.HasPrefix(filepath.Base(fn), "verif_") {
				continue
			}
			fs := token.NewFileSet()
			f, err := parser.ParseFile(fs, fn, nil, 0)
			if err != nil {
				return "", err
			}
			ast.Inspect(f, func(n ast.Node) bool {
				if sel, ok := n.(*ast.SelectorExpr); ok {
					if id, ok := sel.X.(*ast.Ident); ok && id.Name == "sync" && sel.Sel.Name == "Pool" {
						noPool = false
						notes = append(notes, "sync.Pool in "+filepath.Base(fn))
					}
				}
				return true
			})
		}
	}

	// (4) verifyAndDecrypt: `b := make([]byte, len(r))`, `copy(b, r)`, the input r and m.Data are never written
	vd := recvFunc(inst, "channelInstance", "verifyAndDecrypt")
	if vd == nil || len(vd.Type.Params.List) != 2 {
		return "", fmt.Errorf("channelInstance.verifyAndDecrypt(m, r) not found")
	}
	rName := vd.Type.Params.List[1].Names[0].Name
	mName := vd.Type.Params.List[0].Names[0].Name
	hasMake, hasCopy, writesInput := false, false, false
	// the copy: `V := make([]byte, len(r))` … `copy(V, r)`
	cp := ""
	ast.Inspect(vd.Body, func(n ast.Node) bool {
		if as, ok := n.(*ast.AssignStmt); ok && as.Tok == token.DEFINE && len(as.Lhs) == 1 && len(as.Rhs) == 1 {
			if id, ok := as.Lhs[0].(*ast.Ident); ok && recvSrc(fsetI, as.Rhs[0]) == "make([]byte, len("+rName+"))" {
				cp, hasMake = id.Name, true
			}
		}
		return true
	})
	ast.Inspect(vd.Body, func(n ast.Node) bool {
		switch x := n.(type) {
		case *ast.AssignStmt:
			s := recvSrc(fsetI, x)
			for _, l := range x.Lhs {
				ls := recvSrc(fsetI, l)
				if strings.HasPrefix(ls, rName+"[") || strings.HasPrefix(ls, mName+".Data") || ls == rName {
					writesInput = true
					notes = append(notes, "verifyAndDecrypt writes its input: "+s)
				}
			}
		case *ast.CallExpr:
			s := recvSrc(fsetI, x)
			if cp != "" && s == "copy("+cp+", "+rName+")" {
				hasCopy = true
			}
			if strings.HasPrefix(s, "copy("+rName) || strings.HasPrefix(s, "copy("+mName+".Data") || strings.HasPrefix(s, "append("+rName) || strings.HasPrefix(s, "append("+mName+".Data") {
				writesInput = true
				notes = append(notes, "verifyAndDecrypt writes its input: "+s)
			}
			// the ciphertext handed to Decrypt must be a slice of the copy
			if strings.Contains(s, ".Decrypt(") && (cp == "" || !strings.Contains(s, ".Decrypt("+cp+"[")) {
				writesInput = true
				notes = append(notes, "Decrypt is not applied to the copy: "+s)
			}
		}
		return true
	})
	decryptCopies := hasMake && hasCopy && !writesInput
	if !hasMake || !hasCopy {
		notes = append(notes, "verifyAndDecrypt: `b := make([]byte, len(r)); copy(b, r)` not found")
	}

	// (5) mergeChunks: `var b []byte` in the function, the only writes are `b = append(b, …)`
	mc := recvFunc(sc, "", "mergeChunks")
	if mc == nil {
		return "", fmt.Errorf("mergeChunks not found")
	}
	declared, onlyAppend := false, true
	// the result variable: the identifier of the last `return X, nil`
	res := ""
	ast.Inspect(mc.Body, func(n ast.Node) bool {
		if rs, ok := n.(*ast.ReturnStmt); ok && len(rs.Results) == 2 {
			if id, ok := rs.Results[0].(*ast.Ident); ok && id.Name != "nil" {
				res = id.Name
			}
		}
		return true
	})
	ast.Inspect(mc.Body, func(n ast.Node) bool {
		switch x := n.(type) {
		case *ast.DeclStmt:
			if res != "" && strings.HasPrefix(recvSrc(fsetS, x), "var "+res+" []byte") {
				declared = true
			}
		case *ast.AssignStmt:
			s := recvSrc(fsetS, x)
			if res != "" && strings.HasPrefix(s, res+" := make([]byte, 0") {
				declared = true
			}
			for _, l := range x.Lhs {
				ls := recvSrc(fsetS, l)
				if ls == res && x.Tok == token.ASSIGN && !strings.HasPrefix(recvSrc(fsetS, x.Rhs[0]), "append("+res+", ") {
					onlyAppend = false
					notes = append(notes, "mergeChunks: "+s)
				}
				if strings.Contains(ls, ".Data") || strings.Contains(ls, "[") {
					onlyAppend = false
					notes = append(notes, "mergeChunks writes a chunk: "+s)
				}
			}
		case *ast.CallExpr:
			if s := recvSrc(fsetS, x); strings.HasPrefix(s, "copy(") {
				onlyAppend = false
				notes = append(notes, "mergeChunks: "+s)
			}
		}
		return true
	})
	mergeFresh := declared && onlyAppend
	if !declared {
		notes = append(notes, "mergeChunks: result slice is not declared in the function")
	}

	sb.WriteString("import OpcuaModel.Model.Own\nnamespace Opcua.Gen.RecvAlias\nopen Opcua.Own\n\n")
	sb.WriteString("/-- alias facts of the receive path read from uacp/conn.go, uasc/secure_channel.go,\n    uasc/secure_channel_instance.go and the file lists of uacp, uasc, ua -/\n")
	fmt.Fprintf(&sb, "def facts : Facts :=\n  { recvMakesPerCall := %v, noBufferFields := %v, noPool := %v, decryptCopies := %v, mergeAppendsFresh := %v }\n\n",
		recvMakes, noFields, noPool, decryptCopies, mergeFresh)
	if len(notes) > 0 {
		sb.WriteString("/- what the extractor saw:\n")
		for _, n := range notes {
			sb.WriteString("   " + strings.ReplaceAll(n, "-/", "- /") + "\n")
		}
		sb.WriteString("-/\n\n")
	}
	sb.WriteString("end Opcua.Gen.RecvAlias\n")
	return sb.String(), nil
}
