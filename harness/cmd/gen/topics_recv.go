package main

// Generator topics of the receive-path properties (C12, C10, C13, C20):
// facts read from the source with go/ast.

import (
	"bytes"
	"fmt"
	"go/ast"
	"go/parser"
	"go/printer"
	"go/token"
	"path/filepath"
	"strings"
)

func init() {
	register("recvfacts", "RecvFacts.lean", genRecvFacts)
}

func recvParse(repo, rel string) (*token.FileSet, *ast.File, error) {
	fset := token.NewFileSet()
	f, err := parser.ParseFile(fset, filepath.Join(repo, rel), nil, parser.ParseComments)
	return fset, f, err
}

func recvFunc(f *ast.File, recv, name string) *ast.FuncDecl {
	for _, d := range f.Decls {
		fd, ok := d.(*ast.FuncDecl)
		if !ok || fd.Name.Name != name {
			continue
		}
		if recv == "" && fd.Recv == nil {
			return fd
		}
		if fd.Recv != nil && len(fd.Recv.List) == 1 {
			t := fd.Recv.List[0].Type
			if s, ok := t.(*ast.StarExpr); ok {
				t = s.X
			}
			if id, ok := t.(*ast.Ident); ok && id.Name == recv {
				return fd
			}
		}
	}
	return nil
}

func recvSrc(fset *token.FileSet, n ast.Node) string {
	var b bytes.Buffer
	printer.Fprint(&b, fset, n)
	return strings.Join(strings.Fields(b.String()), " ")
}

// genRecvFacts reads the two limit checks of SecureChannel.Receive: the
// condition of the `if` whose body raises "too many chunks" / "message too
// large" must be `[L() != 0 &&] uint32(x) > L()`; the fact generated is whether
// the zero guard is present.
func genRecvFacts(repo string) (string, error) {
	fset, f, err := recvParse(repo, "uasc/secure_channel.go")
	if err != nil {
		return "", err
	}
	fd := recvFunc(f, "SecureChannel", "Receive")
	if fd == nil {
		return "", fmt.Errorf("SecureChannel.Receive not found")
	}
	find := func(msg, limit string) (bool, string, error) {
		var cond string
		n := 0
		ast.Inspect(fd.Body, func(x ast.Node) bool {
			is, ok := x.(*ast.IfStmt)
			if !ok {
				return true
			}
			if strings.Contains(recvSrc(fset, is.Body), msg) && !strings.Contains(recvSrc(fset, is.Body), "switch") {
				c := is.Cond
				if is.Init != nil {
					cond = recvSrc(fset, is.Init) + "; "
				} else {
					cond = ""
				}
				cond += recvSrc(fset, c)
				n++
			}
			return true
		})
		if n != 1 {
			return false, "", fmt.Errorf("expected one `if` raising %q in Receive, found %d", msg, n)
		}
		c := cond
		if i := strings.Index(c, "; "); i >= 0 {
			c = c[i+2:]
		}
		plain := strings.HasPrefix(c, "uint32(") && strings.HasSuffix(c, " > s.c."+limit+"()") && !strings.Contains(c, "&&") && !strings.Contains(c, "||")
		guarded := strings.HasPrefix(c, "s.c."+limit+"() != 0 && uint32(") && strings.HasSuffix(c, " > s.c."+limit+"()") && strings.Count(c, "&&") == 1 && !strings.Contains(c, "||")
		switch {
		case plain:
			return false, cond, nil
		case guarded:
			return true, cond, nil
		}
		return false, cond, fmt.Errorf("limit check %q has an unexpected shape: %s", msg, cond)
	}
	c0, cc, err := find("too many chunks", "MaxChunkCount")
	if err != nil {
		return "", err
	}
	s0, sc, err := find("message too large", "MaxMessageSize")
	if err != nil {
		return "", err
	}
	var sb strings.Builder
	sb.WriteString("namespace Opcua.Gen.RecvFacts\n\n")
	fmt.Fprintf(&sb, "/-- `if %s` in SecureChannel.Receive: the zero guard is present -/\ndef chunkLimitZeroUnlimited : Bool := %v\n\n", cc, c0)
	fmt.Fprintf(&sb, "/-- `if %s` in SecureChannel.Receive: the zero guard is present -/\ndef sizeLimitZeroUnlimited : Bool := %v\n\n", sc, s0)
	sb.WriteString("end Opcua.Gen.RecvFacts\n")
	return sb.String(), nil
}
