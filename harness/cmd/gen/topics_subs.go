package main

// Generator topic "subsfacts" (C26, C27): structural facts of the client's
// subscription code read from the syntax tree of client.go / client_sub.go:
// the reconnectAction constants, the `action = …` targets of every case of the
// action switch in Client.monitor, the error → first action table, the status
// codes handleAcks treats as final, the capacities of pausech / resumech, and
// which functions send on / receive from them.

import (
	"bytes"
	"fmt"
	"go/ast"
	"go/parser"
	"go/printer"
	"go/token"
	"path/filepath"
	"strings"
)

func init() {
	register("subsfacts", "SubsFacts.lean", genSubsFacts)
}

func exprString(fset *token.FileSet, e ast.Node) string {
	var b bytes.Buffer
	printer.Fprint(&b, fset, e)
	return b.String()
}

func findFunc(f *ast.File, recv, name string) *ast.FuncDecl {
	for _, d := range f.Decls {
		fd, ok := d.(*ast.FuncDecl)
		if !ok || fd.Name.Name != name {
			continue
		}
		if recv == "" {
			if fd.Recv == nil {
				return fd
			}
			continue
		}
		if fd.Recv == nil || len(fd.Recv.List) == 0 {
			continue
		}
		t := fd.Recv.List[0].Type
		if st, ok := t.(*ast.StarExpr); ok {
			t = st.X
		}
		if id, ok := t.(*ast.Ident); ok && id.Name == recv {
			return fd
		}
	}
	return nil
}

// actionAssigns lists, in source order, the right-hand sides of `action = X`
// statements below n.
func actionAssigns(n ast.Node) []string {
	var out []string
	ast.Inspect(n, func(x ast.Node) bool {
		as, ok := x.(*ast.AssignStmt)
		if !ok || len(as.Lhs) != 1 || len(as.Rhs) != 1 || as.Tok != token.ASSIGN {
			return true
		}
		if l, ok := as.Lhs[0].(*ast.Ident); ok && l.Name == "action" {
			if r, ok := as.Rhs[0].(*ast.Ident); ok {
				out = append(out, r.Name)
			}
		}
		return true
	})
	return out
}

func leanStrList(xs []string) string {
	q := make([]string, len(xs))
	for i, x := range xs {
		q[i] = fmt.Sprintf("%q", x)
	}
	return "[" + strings.Join(q, ", ") + "]"
}

func genSubsFacts(repo string) (string, error) {
	fset := token.NewFileSet()
	cf, err := parser.ParseFile(fset, filepath.Join(repo, "client.go"), nil, 0)
	if err != nil {
		return "", err
	}
	sf, err := parser.ParseFile(fset, filepath.Join(repo, "client_sub.go"), nil, 0)
	if err != nil {
		return "", err
	}
	var sb strings.Builder
	sb.WriteString("namespace Opcua.Gen.Subs\n\n")

	// 1. reconnectAction constants in iota order
	var consts []string
	for _, d := range cf.Decls {
		gd, ok := d.(*ast.GenDecl)
		if !ok || gd.Tok != token.CONST {
			continue
		}
		isAction := false
		for _, s := range gd.Specs {
			vs := s.(*ast.ValueSpec)
			if id, ok := vs.Type.(*ast.Ident); ok && id.Name == "reconnectAction" {
				isAction = true
			}
		}
		if !isAction {
			continue
		}
		for _, s := range gd.Specs {
			for _, n := range s.(*ast.ValueSpec).Names {
				consts = append(consts, n.Name)
			}
		}
	}
	if len(consts) == 0 {
		return "", fmt.Errorf("reconnectAction constants not found in client.go")
	}
	sb.WriteString("/-- the `reconnectAction` constants of client.go in iota order -/\ndef actionNames : List String := " + leanStrList(consts) + "\n\n")

	// 2. + 3. + resume condition: Client.monitor
	mon := findFunc(cf, "Client", "monitor")
	if mon == nil {
		return "", fmt.Errorf("Client.monitor not found")
	}
	var targets, initial []string
	var resumeConds []string
	pausesBeforeLoop := 0
	ast.Inspect(mon, func(x ast.Node) bool {
		switch s := x.(type) {
		case *ast.SwitchStmt:
			if id, ok := s.Tag.(*ast.Ident); ok && id.Name == "action" {
				for _, c := range s.Body.List {
					cc := c.(*ast.CaseClause)
					if len(cc.List) != 1 {
						continue
					}
					name := exprString(fset, cc.List[0])
					var as []string
					for _, st := range cc.Body {
						as = append(as, actionAssigns(st)...)
					}
					targets = append(targets, fmt.Sprintf("(%q, %s)", name, leanStrList(as)))
				}
				return false
			}
			if s.Tag == nil {
				// the error classification switch: cases `errors.Is(err, X)`
				var rows [][2]string
				isErrSwitch := false
				for _, c := range s.Body.List {
					cc := c.(*ast.CaseClause)
					label := "default"
					if len(cc.List) == 1 {
						if call, ok := cc.List[0].(*ast.CallExpr); ok && exprString(fset, call.Fun) == "errors.Is" && len(call.Args) == 2 {
							label = exprString(fset, call.Args[1])
							isErrSwitch = true
						} else {
							label = exprString(fset, cc.List[0])
						}
					}
					as := []string{}
					for _, st := range cc.Body {
						as = append(as, actionAssigns(st)...)
					}
					ft := false
					for _, st := range cc.Body {
						if b, ok := st.(*ast.BranchStmt); ok && b.Tok == token.FALLTHROUGH {
							ft = true
						}
					}
					a := ""
					if len(as) == 1 {
						a = as[0]
					}
					if ft {
						a = "fallthrough"
					}
					rows = append(rows, [2]string{label, a})
				}
				if isErrSwitch {
					for i := len(rows) - 1; i >= 0; i-- {
						if rows[i][1] == "fallthrough" && i+1 < len(rows) {
							rows[i][1] = rows[i+1][1]
						}
					}
					for _, r := range rows {
						initial = append(initial, fmt.Sprintf("(%q, %q)", r[0], r[1]))
					}
					return false
				}
				// the resume switch: a case whose body calls c.resumeSubscriptions
				for _, c := range s.Body.List {
					cc := c.(*ast.CaseClause)
					calls := false
					for _, st := range cc.Body {
						ast.Inspect(st, func(y ast.Node) bool {
							if call, ok := y.(*ast.CallExpr); ok && exprString(fset, call.Fun) == "c.resumeSubscriptions" {
								calls = true
							}
							return true
						})
					}
					if calls && len(cc.List) == 1 {
						resumeConds = append(resumeConds, exprString(fset, cc.List[0]))
					}
				}
			}
		case *ast.CallExpr:
			if exprString(fset, s.Fun) == "c.pauseSubscriptions" {
				pausesBeforeLoop++
			}
		}
		return true
	})
	if len(targets) == 0 || len(initial) == 0 || len(resumeConds) == 0 {
		return "", fmt.Errorf("monitor: action switch (%d cases), error switch (%d cases) or resume conditions (%q) not found", len(targets), len(initial), resumeConds)
	}
	sb.WriteString("/-- per case of `switch action` in Client.monitor: the `action = …` assignments in source order -/\ndef actionTargets : List (String × List String) :=\n  [" + strings.Join(targets, ",\n   ") + "]\n\n")
	sb.WriteString("/-- the first action chosen for an error (`errors.Is(err, …)` cases in source order, `fallthrough` resolved) -/\ndef initialActions : List (String × String) :=\n  [" + strings.Join(initial, ",\n   ") + "]\n\n")
	sb.WriteString("/-- the case conditions under which monitor resumes the publish loop after a reconnect -/\ndef resumeConds : List String := " + leanStrList(resumeConds) + "\n\n")
	fmt.Fprintf(&sb, "/-- calls of c.pauseSubscriptions in Client.monitor -/\ndef monitorPauses : Nat := %d\n\n", pausesBeforeLoop)

	// 4. handleAcks: case labels that do not re-queue the acknowledgement
	ha := findFunc(sf, "Client", "handleAcks_NeedsSubMuxLock")
	if ha == nil {
		return "", fmt.Errorf("handleAcks_NeedsSubMuxLock not found")
	}
	var final []string
	retryDefault := false
	resetOnMismatch := ""
	ast.Inspect(ha, func(x ast.Node) bool {
		switch s := x.(type) {
		case *ast.IfStmt:
			if resetOnMismatch == "" {
				c := exprString(fset, s.Cond)
				if strings.Contains(c, "len(c.pendingAcks)") && strings.Contains(c, "len(res)") {
					resetOnMismatch = c
				}
			}
		case *ast.SwitchStmt:
			if id, ok := s.Tag.(*ast.Ident); !ok || id.Name != "err" {
				return true
			}
			for _, c := range s.Body.List {
				cc := c.(*ast.CaseClause)
				appends := false
				for _, st := range cc.Body {
					ast.Inspect(st, func(y ast.Node) bool {
						if as, ok := y.(*ast.AssignStmt); ok && len(as.Lhs) == 1 && exprString(fset, as.Lhs[0]) == "notAcked" {
							appends = true
						}
						return true
					})
				}
				if len(cc.List) == 0 {
					retryDefault = appends
					continue
				}
				for _, l := range cc.List {
					name := strings.TrimPrefix(exprString(fset, l), "ua.")
					if !appends {
						final = append(final, name)
					} else {
						final = append(final, "RETRY:"+name)
					}
				}
			}
			return false
		}
		return true
	})
	if len(final) == 0 {
		return "", fmt.Errorf("handleAcks: status switch not found")
	}
	sb.WriteString("/-- status codes after which handleAcks drops the acknowledgement -/\ndef ackFinal : List String := " + leanStrList(final) + "\n\n")
	fmt.Fprintf(&sb, "/-- the default case re-queues the acknowledgement -/\ndef ackRetryDefault : Bool := %v\n\n", retryDefault)
	fmt.Fprintf(&sb, "/-- condition under which handleAcks empties pendingAcks first -/\ndef ackResetCond : String := %q\n\n", resetOnMismatch)

	// 5. channel capacities and the initial pause in NewClient
	nc := findFunc(cf, "", "NewClient")
	if nc == nil {
		return "", fmt.Errorf("NewClient not found")
	}
	caps := map[string]string{}
	initPauses := 0
	ast.Inspect(nc, func(x ast.Node) bool {
		switch s := x.(type) {
		case *ast.KeyValueExpr:
			k := exprString(fset, s.Key)
			if k == "pausech" || k == "resumech" {
				if call, ok := s.Value.(*ast.CallExpr); ok && exprString(fset, call.Fun) == "make" {
					if len(call.Args) == 2 {
						caps[k] = exprString(fset, call.Args[1])
					} else {
						caps[k] = "0"
					}
				}
			}
		case *ast.CallExpr:
			if exprString(fset, s.Fun) == "c.pauseSubscriptions" {
				initPauses++
			}
		}
		return true
	})
	for _, k := range []string{"pausech", "resumech"} {
		v, ok := caps[k]
		if !ok {
			return "", fmt.Errorf("NewClient: capacity of %s not found", k)
		}
		for _, ch := range v {
			if ch < '0' || ch > '9' {
				return "", fmt.Errorf("NewClient: capacity of %s is not a literal: %s", k, v)
			}
		}
	}
	fmt.Fprintf(&sb, "/-- `make(chan struct{}, n)` in NewClient -/\ndef pauseCap : Nat := %s\ndef resumeCap : Nat := %s\n\n", caps["pausech"], caps["resumech"])
	fmt.Fprintf(&sb, "/-- calls of c.pauseSubscriptions in NewClient (tokens queued before the loop starts) -/\ndef newClientPauses : Nat := %d\n\n", initPauses)

	// 6. who sends on pausech / resumech, and under which lock discipline
	type fact struct{ fn, what string }
	var sends []string
	for _, file := range []*ast.File{cf, sf} {
		for _, d := range file.Decls {
			fd, ok := d.(*ast.FuncDecl)
			if !ok || fd.Body == nil {
				continue
			}
			ast.Inspect(fd.Body, func(x ast.Node) bool {
				if s, ok := x.(*ast.SendStmt); ok {
					ch := exprString(fset, s.Chan)
					if ch == "c.pausech" || ch == "c.resumech" {
						// a send that is a select case has ctx.Done() as alternative
						sends = append(sends, fmt.Sprintf("(%q, %q)", fd.Name.Name, strings.TrimPrefix(ch, "c.")))
					}
				}
				return true
			})
		}
	}
	sb.WriteString("/-- (function, channel) for every send statement on pausech / resumech -/\ndef sends : List (String × String) :=\n  [" + strings.Join(sends, ", ") + "]\n\n")

	// forgetSubscription_NeedsSubMuxLock pauses when the registry is empty; its
	// callers hold subMux
	fg := findFunc(sf, "Client", "forgetSubscription_NeedsSubMuxLock")
	if fg == nil {
		return "", fmt.Errorf("forgetSubscription_NeedsSubMuxLock not found")
	}
	forgetCond := ""
	ast.Inspect(fg, func(x ast.Node) bool {
		if s, ok := x.(*ast.IfStmt); ok {
			calls := false
			ast.Inspect(s.Body, func(y ast.Node) bool {
				if call, ok := y.(*ast.CallExpr); ok && exprString(fset, call.Fun) == "c.pauseSubscriptions" {
					calls = true
				}
				return true
			})
			if calls {
				forgetCond = exprString(fset, s.Cond)
			}
		}
		return true
	})
	fmt.Fprintf(&sb, "/-- condition under which forgetSubscription_NeedsSubMuxLock pauses (while subMux is held) -/\ndef forgetPauseCond : String := %q\n\n", forgetCond)

	// ForgetSubscription: Lock … forget … Unlock
	fs := findFunc(sf, "Client", "ForgetSubscription")
	if fs == nil {
		return "", fmt.Errorf("ForgetSubscription not found")
	}
	var seq []string
	ast.Inspect(fs.Body, func(x ast.Node) bool {
		if call, ok := x.(*ast.CallExpr); ok {
			seq = append(seq, exprString(fset, call.Fun))
		}
		return true
	})
	sb.WriteString("/-- the calls of ForgetSubscription in order -/\ndef forgetCalls : List String := " + leanStrList(seq) + "\n\n")

	// the publish loop pauses itself on an error of publish()
	ms := findFunc(sf, "Client", "monitorSubscriptions")
	if ms == nil {
		return "", fmt.Errorf("monitorSubscriptions not found")
	}
	selfPause := false
	ast.Inspect(ms.Body, func(x ast.Node) bool {
		if s, ok := x.(*ast.IfStmt); ok && s.Init != nil && strings.Contains(exprString(fset, s.Init), "c.publish(ctx)") {
			ast.Inspect(s.Body, func(y ast.Node) bool {
				if call, ok := y.(*ast.CallExpr); ok && exprString(fset, call.Fun) == "c.pauseSubscriptions" {
					selfPause = true
				}
				return true
			})
		}
		return true
	})
	fmt.Fprintf(&sb, "/-- monitorSubscriptions calls c.pauseSubscriptions itself when publish() fails -/\ndef loopSelfPause : Bool := %v\n\n", selfPause)

	sb.WriteString("end Opcua.Gen.Subs\n")
	return sb.String(), nil
}
