package main

// Generator topic "asym" (property C15, also consumed by C37): facts about the
// asymmetric half of every security policy, extracted from the source with
// go/ast (constant evaluation and a tiny boolean translator):
//
//   * which policies exist and which constructor serves them
//     (`policies` map in uapolicy/securitypolicy.go, URI constants in ua/enums.go)
//   * the local constants minAsymmetricKeyLength / maxAsymmetricKeyLength and
//     the *guards* of each constructor (every `if cond { return nil, err }`),
//     translated to a Lean Bool function of (hasLocal, localBits, hasRemote,
//     remoteBits); Size() is sizeOfBits of the bit length, N.BitLen() the bit length
//   * the type and hash of the `encrypt:` / `signature:` fields and the
//     constant subtracted in `plainttextBlockSize: remoteKeySize - X`
//   * the constant the Encrypt method of that type subtracts from the key size
//     (`maxBlock := Size() - minPadding`, including the `switch a.Hash` of
//     RSAOAEP.Encrypt) and the evaluated values of the MinPadding constants.
//
// Anything that does not have the expected shape makes the topic fail, so the
// theorems importing Gen/Asym.lean are reported as broken.

import (
	"fmt"
	"go/ast"
	"go/parser"
	"go/token"
	"path/filepath"
	"sort"
	"strconv"
	"strings"
)

func init() { register("asym", "Asym.lean", genAsym) }

type asymPkg struct {
	fset   *token.FileSet
	files  []*ast.File
	consts map[string]ast.Expr // package-level constants
	funcs  map[string]*ast.FuncDecl
}

func asymParseDir(dir string) (*asymPkg, error) {
	p := &asymPkg{fset: token.NewFileSet(), consts: map[string]ast.Expr{}, funcs: map[string]*ast.FuncDecl{}}
	names, err := filepath.Glob(filepath.Join(dir, "*.go"))
	if err != nil {
		return nil, err
	}
	sort.Strings(names)
	for _, n := range names {
		if strings.HasSuffix(n, "_test.go") || strings.HasPrefix(filepath.Base(n), "verif_") {
			continue
		}
		f, err := parser.ParseFile(p.fset, n, nil, 0)
		if err != nil {
			return nil, err
		}
		p.files = append(p.files, f)
		for _, d := range f.Decls {
			switch x := d.(type) {
			case *ast.GenDecl:
				if x.Tok == token.CONST {
					asymCollectConsts(x, p.consts)
				}
			case *ast.FuncDecl:
				name := x.Name.Name
				if x.Recv != nil && len(x.Recv.List) == 1 {
					name = asymTypeName(x.Recv.List[0].Type) + "." + name
				}
				p.funcs[name] = x
			}
		}
	}
	return p, nil
}

func asymTypeName(e ast.Expr) string {
	switch x := e.(type) {
	case *ast.StarExpr:
		return asymTypeName(x.X)
	case *ast.Ident:
		return x.Name
	}
	return "?"
}

func asymCollectConsts(d *ast.GenDecl, into map[string]ast.Expr) {
	for _, s := range d.Specs {
		vs := s.(*ast.ValueSpec)
		for i, n := range vs.Names {
			if i < len(vs.Values) {
				into[n.Name] = vs.Values[i]
			}
		}
	}
}

// asymEval evaluates an integer constant expression.
func asymEval(e ast.Expr, scopes ...map[string]ast.Expr) (int64, error) {
	switch x := e.(type) {
	case *ast.BasicLit:
		if x.Kind == token.INT {
			return strconv.ParseInt(x.Value, 0, 64)
		}
	case *ast.ParenExpr:
		return asymEval(x.X, scopes...)
	case *ast.Ident:
		for _, s := range scopes {
			if v, ok := s[x.Name]; ok {
				return asymEval(v, scopes...)
			}
		}
		return 0, fmt.Errorf("unknown constant %s", x.Name)
	case *ast.BinaryExpr:
		a, err := asymEval(x.X, scopes...)
		if err != nil {
			return 0, err
		}
		b, err := asymEval(x.Y, scopes...)
		if err != nil {
			return 0, err
		}
		switch x.Op {
		case token.ADD:
			return a + b, nil
		case token.SUB:
			return a - b, nil
		case token.MUL:
			return a * b, nil
		case token.QUO:
			if b == 0 {
				return 0, fmt.Errorf("division by zero")
			}
			return a / b, nil
		}
	}
	return 0, fmt.Errorf("not an integer constant expression: %T", e)
}

// asymBool translates a guard condition into a Lean Bool term over
// hasLocal localBits/localSize hasRemote remoteBits/remoteSize.
func asymBool(e ast.Expr, scopes ...map[string]ast.Expr) (string, error) {
	switch x := e.(type) {
	case *ast.ParenExpr:
		s, err := asymBool(x.X, scopes...)
		return "(" + s + ")", err
	case *ast.BinaryExpr:
		switch x.Op {
		case token.LAND, token.LOR:
			a, err := asymBool(x.X, scopes...)
			if err != nil {
				return "", err
			}
			b, err := asymBool(x.Y, scopes...)
			if err != nil {
				return "", err
			}
			op := map[token.Token]string{token.LAND: "&&", token.LOR: "||"}[x.Op]
			return "(" + a + " " + op + " " + b + ")", nil
		case token.NEQ, token.EQL:
			// key != nil / key == nil
			if id, ok := x.Y.(*ast.Ident); ok && id.Name == "nil" {
				if k, ok := x.X.(*ast.Ident); ok {
					v := map[string]string{"localKey": "hasLocal", "remoteKey": "hasRemote"}[k.Name]
					if v == "" {
						return "", fmt.Errorf("nil comparison of %s", k.Name)
					}
					if x.Op == token.EQL {
						return "(!" + v + ")", nil
					}
					return v, nil
				}
			}
			fallthrough
		case token.LSS, token.GTR, token.LEQ, token.GEQ:
			a, err := asymInt(x.X, scopes...)
			if err != nil {
				return "", err
			}
			b, err := asymInt(x.Y, scopes...)
			if err != nil {
				return "", err
			}
			op := map[token.Token]string{token.LSS: "<", token.GTR: ">", token.LEQ: "≤", token.GEQ: "≥", token.EQL: "=", token.NEQ: "≠"}[x.Op]
			return "decide (" + a + " " + op + " " + b + ")", nil
		}
	case *ast.UnaryExpr:
		if x.Op == token.NOT {
			s, err := asymBool(x.X, scopes...)
			return "(!" + s + ")", err
		}
	}
	return "", fmt.Errorf("guard outside the translatable fragment: %T", e)
}

func asymInt(e ast.Expr, scopes ...map[string]ast.Expr) (string, error) {
	if c, ok := e.(*ast.CallExpr); ok && len(c.Args) == 0 {
		// key size in bytes: localKey.PublicKey.Size() / localKey.Size() / remoteKey.Size()
		// key size in bits:  localKey.PublicKey.N.BitLen() / localKey.N.BitLen() / remoteKey.N.BitLen()
		if sel, ok := c.Fun.(*ast.SelectorExpr); ok {
			x := sel.X
			suffix := ""
			switch sel.Sel.Name {
			case "Size":
				suffix = "Size"
			case "BitLen":
				n, ok := x.(*ast.SelectorExpr)
				if !ok || n.Sel.Name != "N" {
					return "", fmt.Errorf("BitLen() of something that is not <key>.N")
				}
				x = n.X
				suffix = "Bits"
			default:
				return "", fmt.Errorf("call %s() outside the translatable fragment", sel.Sel.Name)
			}
			if y, ok := x.(*ast.SelectorExpr); ok && y.Sel.Name == "PublicKey" {
				x = y.X // localKey.PublicKey.… = localKey.… (embedded)
			}
			if id, ok := x.(*ast.Ident); ok {
				switch id.Name {
				case "remoteKey":
					return "remote" + suffix, nil
				case "localKey":
					return "local" + suffix, nil
				}
			}
		}
		return "", fmt.Errorf("call outside the translatable fragment")
	}
	v, err := asymEval(e, scopes...)
	if err != nil {
		return "", err
	}
	return fmt.Sprintf("(%d : Int)", v), nil
}

// asymCrypto describes a composite literal `&RSAOAEP{Hash: crypto.SHA1, …}`.
func asymCrypto(e ast.Expr) (typ, hash string) {
	if u, ok := e.(*ast.UnaryExpr); ok {
		e = u.X
	}
	cl, ok := e.(*ast.CompositeLit)
	if !ok {
		return "?", ""
	}
	typ = asymTypeName(cl.Type)
	for _, el := range cl.Elts {
		if kv, ok := el.(*ast.KeyValueExpr); ok {
			if k, ok := kv.Key.(*ast.Ident); ok && k.Name == "Hash" {
				if s, ok := kv.Value.(*ast.SelectorExpr); ok {
					hash = s.Sel.Name
				}
			}
		}
	}
	return
}

func asymScheme(typ, hash string) (string, error) {
	switch typ + "/" + hash {
	case "None/":
		return ".none", nil
	case "PKCS1v15/":
		return ".pkcs1v15", nil
	case "RSAOAEP/SHA1":
		return ".oaepSha1", nil
	case "RSAOAEP/SHA256":
		return ".oaepSha256", nil
	}
	return "", fmt.Errorf("unknown encryption scheme %s{Hash: %s}", typ, hash)
}

func asymSigScheme(typ, hash string) (string, error) {
	switch typ + "/" + hash {
	case "None/":
		return ".none", nil
	case "PKCS1v15/SHA1":
		return ".pkcs1v15Sha1", nil
	case "PKCS1v15/SHA256":
		return ".pkcs1v15Sha256", nil
	case "RSAPSS/SHA256":
		return ".pssSha256", nil
	}
	return "", fmt.Errorf("unknown signature scheme %s{Hash: %s}", typ, hash)
}

// asymEncPad finds the constant Encrypt subtracts from the key size for the
// given type and hash: `maxBlock := X.PublicKey.Size() - <c>` where <c> is a
// constant or a variable set by `switch a.Hash { case crypto.H: v = CONST }`.
func asymEncPad(p *asymPkg, typ, hash string) (int64, string, error) {
	fn := p.funcs[typ+".Encrypt"]
	if fn == nil {
		return 0, "", fmt.Errorf("no method %s.Encrypt", typ)
	}
	var sub ast.Expr
	sw := map[string]ast.Expr{} // variable -> const expr selected for hash
	for _, st := range fn.Body.List {
		switch s := st.(type) {
		case *ast.AssignStmt:
			if len(s.Lhs) == 1 && len(s.Rhs) == 1 {
				if id, ok := s.Lhs[0].(*ast.Ident); ok && id.Name == "maxBlock" {
					be, ok := s.Rhs[0].(*ast.BinaryExpr)
					if !ok || be.Op != token.SUB {
						return 0, "", fmt.Errorf("%s.Encrypt: maxBlock is not `Size() - c`", typ)
					}
					if c, ok := be.X.(*ast.CallExpr); !ok || len(c.Args) != 0 {
						return 0, "", fmt.Errorf("%s.Encrypt: maxBlock is not `Size() - c`", typ)
					} else if sel, ok := c.Fun.(*ast.SelectorExpr); !ok || sel.Sel.Name != "Size" {
						return 0, "", fmt.Errorf("%s.Encrypt: maxBlock is not `Size() - c`", typ)
					}
					sub = be.Y
				}
			}
		case *ast.SwitchStmt:
			for _, cc := range s.Body.List {
				c := cc.(*ast.CaseClause)
				for _, l := range c.List {
					if sel, ok := l.(*ast.SelectorExpr); ok && sel.Sel.Name == hash {
						for _, b := range c.Body {
							if as, ok := b.(*ast.AssignStmt); ok && len(as.Lhs) == 1 && len(as.Rhs) == 1 {
								if id, ok := as.Lhs[0].(*ast.Ident); ok {
									sw[id.Name] = as.Rhs[0]
								}
							}
						}
					}
				}
			}
		}
	}
	if sub == nil {
		return 0, "", fmt.Errorf("%s.Encrypt: no maxBlock assignment", typ)
	}
	if id, ok := sub.(*ast.Ident); ok {
		if e, ok := sw[id.Name]; ok {
			sub = e
		} else if _, isConst := p.consts[id.Name]; !isConst {
			// variable with no case for this hash: stays at its initial value 0
			return 0, "0 (no switch case for " + hash + ")", nil
		}
	}
	v, err := asymEval(sub, p.consts)
	src := ""
	if id, ok := sub.(*ast.Ident); ok {
		src = id.Name
	}
	return v, src, err
}

func genAsym(repo string) (string, error) {
	p, err := asymParseDir(filepath.Join(repo, "uapolicy"))
	if err != nil {
		return "", err
	}
	uap, err := asymParseDir(filepath.Join(repo, "ua"))
	if err != nil {
		return "", err
	}
	// URI constant name -> short policy name
	short := map[string]string{}
	for n, e := range uap.consts {
		if bl, ok := e.(*ast.BasicLit); ok && bl.Kind == token.STRING && strings.HasPrefix(n, "SecurityPolicyURI") {
			s, _ := strconv.Unquote(bl.Value)
			if i := strings.LastIndex(s, "#"); i >= 0 && i+1 < len(s) {
				short[n] = s[i+1:]
			}
		}
	}
	// the policies map
	type ent struct{ name, ctor string }
	var ents []ent
	for _, f := range p.files {
		for _, d := range f.Decls {
			gd, ok := d.(*ast.GenDecl)
			if !ok || gd.Tok != token.VAR {
				continue
			}
			for _, s := range gd.Specs {
				vs := s.(*ast.ValueSpec)
				if len(vs.Names) != 1 || vs.Names[0].Name != "policies" || len(vs.Values) != 1 {
					continue
				}
				cl, ok := vs.Values[0].(*ast.CompositeLit)
				if !ok {
					return "", fmt.Errorf("policies is not a composite literal")
				}
				for _, el := range cl.Elts {
					kv := el.(*ast.KeyValueExpr)
					sel, ok := kv.Key.(*ast.SelectorExpr)
					if !ok {
						return "", fmt.Errorf("policies key is not ua.<const>")
					}
					nm, ok := short[sel.Sel.Name]
					if !ok {
						return "", fmt.Errorf("policies key %s: unknown URI constant", sel.Sel.Name)
					}
					v, ok := kv.Value.(*ast.CompositeLit)
					if !ok || len(v.Elts) != 2 {
						return "", fmt.Errorf("policies[%s] is not {asym, sym}", nm)
					}
					id, ok := v.Elts[0].(*ast.Ident)
					if !ok {
						return "", fmt.Errorf("policies[%s]: asymmetric constructor is not an identifier", nm)
					}
					ents = append(ents, ent{nm, id.Name})
				}
			}
		}
	}
	if len(ents) == 0 {
		return "", fmt.Errorf("no policies found")
	}
	sort.Slice(ents, func(i, j int) bool { return ents[i].name < ents[j].name })

	var sb strings.Builder
	sb.WriteString("import OpcuaModel.Model.Asym\nset_option linter.unusedVariables false\nnamespace Opcua.Gen\nopen Opcua Opcua.Asym\n\n")
	// evaluated padding constants
	for _, c := range []string{"RSAOAEPMinPaddingSHA1", "RSAOAEPMinPaddingSHA256", "PKCS1v15MinPadding"} {
		e, ok := p.consts[c]
		if !ok {
			return "", fmt.Errorf("constant %s not found", c)
		}
		v, err := asymEval(e, p.consts)
		if err != nil {
			return "", fmt.Errorf("%s: %v", c, err)
		}
		fmt.Fprintf(&sb, "/-- uapolicy.%s -/\ndef %s : Int := %d\n\n", c, strings.ToLower(c[:1])+c[1:], v)
	}
	var names []string
	for _, en := range ents {
		fn := p.funcs[en.ctor]
		if fn == nil {
			return "", fmt.Errorf("constructor %s not found", en.ctor)
		}
		local := map[string]ast.Expr{}
		var guards []string
		var ret *ast.CompositeLit
		for _, st := range fn.Body.List {
			switch s := st.(type) {
			case *ast.DeclStmt:
				if gd, ok := s.Decl.(*ast.GenDecl); ok && gd.Tok == token.CONST {
					asymCollectConsts(gd, local)
				}
			case *ast.IfStmt:
				// a guard = an if whose body ends in `return nil, <err>`
				if n := len(s.Body.List); n > 0 {
					if r, ok := s.Body.List[n-1].(*ast.ReturnStmt); ok && len(r.Results) == 2 {
						if id, ok := r.Results[0].(*ast.Ident); ok && id.Name == "nil" {
							if s.Init != nil || s.Else != nil {
								return "", fmt.Errorf("%s: guard with init/else", en.ctor)
							}
							g, err := asymBool(s.Cond, local, p.consts)
							if err != nil {
								return "", fmt.Errorf("%s: %v", en.ctor, err)
							}
							guards = append(guards, g)
						}
					}
				}
			case *ast.ReturnStmt:
				if len(s.Results) == 2 {
					if u, ok := s.Results[0].(*ast.UnaryExpr); ok {
						ret, _ = u.X.(*ast.CompositeLit)
					}
				}
			}
		}
		if ret == nil {
			return "", fmt.Errorf("%s: no `return &EncryptionAlgorithm{…}, nil`", en.ctor)
		}
		fields := map[string]ast.Expr{}
		for _, el := range ret.Elts {
			kv := el.(*ast.KeyValueExpr)
			fields[kv.Key.(*ast.Ident).Name] = kv.Value
		}
		et, eh := asymCrypto(fields["encrypt"])
		dt, dh := asymCrypto(fields["decrypt"])
		if et != dt || eh != dh {
			return "", fmt.Errorf("%s: encrypt %s/%s and decrypt %s/%s differ", en.ctor, et, eh, dt, dh)
		}
		scheme, err := asymScheme(et, eh)
		if err != nil {
			return "", fmt.Errorf("%s: %v", en.ctor, err)
		}
		st, sh := asymCrypto(fields["signature"])
		vt, vh := asymCrypto(fields["verifySignature"])
		if st != vt || sh != vh {
			return "", fmt.Errorf("%s: signature %s/%s and verifySignature %s/%s differ", en.ctor, st, sh, vt, vh)
		}
		sig, err := asymSigScheme(st, sh)
		if err != nil {
			return "", fmt.Errorf("%s: %v", en.ctor, err)
		}
		var encPad, ptPad, minB, maxB, nonce int64
		encSrc := ""
		if scheme != ".none" {
			if encPad, encSrc, err = asymEncPad(p, et, eh); err != nil {
				return "", err
			}
			be, ok := fields["plainttextBlockSize"].(*ast.BinaryExpr)
			if !ok || be.Op != token.SUB {
				return "", fmt.Errorf("%s: plainttextBlockSize is not `remoteKeySize - c`", en.ctor)
			}
			if id, ok := be.X.(*ast.Ident); !ok || id.Name != "remoteKeySize" {
				return "", fmt.Errorf("%s: plainttextBlockSize is not `remoteKeySize - c`", en.ctor)
			}
			if id, ok := fields["blockSize"].(*ast.Ident); !ok || id.Name != "remoteKeySize" {
				return "", fmt.Errorf("%s: blockSize is not remoteKeySize", en.ctor)
			}
			if id, ok := fields["signatureLength"].(*ast.Ident); !ok || id.Name != "localKeySize" {
				return "", fmt.Errorf("%s: signatureLength is not localKeySize", en.ctor)
			}
			if id, ok := fields["remoteSignatureLength"].(*ast.Ident); !ok || id.Name != "remoteKeySize" {
				return "", fmt.Errorf("%s: remoteSignatureLength is not remoteKeySize", en.ctor)
			}
			if ptPad, err = asymEval(be.Y, local, p.consts); err != nil {
				return "", fmt.Errorf("%s: %v", en.ctor, err)
			}
			if minB, err = asymEval(&ast.Ident{Name: "minAsymmetricKeyLength"}, local, p.consts); err != nil {
				return "", fmt.Errorf("%s: %v", en.ctor, err)
			}
			if maxB, err = asymEval(&ast.Ident{Name: "maxAsymmetricKeyLength"}, local, p.consts); err != nil {
				return "", fmt.Errorf("%s: %v", en.ctor, err)
			}
			if nonce, err = asymEval(&ast.Ident{Name: "nonceLength"}, local, p.consts); err != nil {
				return "", fmt.Errorf("%s: %v", en.ctor, err)
			}
		}
		acc := "true"
		for _, g := range guards {
			acc += " && !" + g
		}
		n := "asym" + en.name
		names = append(names, n)
		fmt.Fprintf(&sb, "/-- %s (uapolicy); Encrypt pad from %s.Encrypt (%s) -/\ndef %s : AsymRow :=\n  { name := %q, scheme := %s, sigScheme := %s, encPad := %d, ptPad := %d,\n    minKeyBytes := %d, maxKeyBytes := %d, nonceLength := %d,\n    accept := fun hasLocal localBits hasRemote remoteBits =>\n      let localSize := sizeOfBits localBits\n      let remoteSize := sizeOfBits remoteBits\n      %s }\n\n",
			en.ctor, et, encSrc, n, en.name, scheme, sig, encPad, ptPad, minB, maxB, nonce, acc)
	}
	fmt.Fprintf(&sb, "/-- every entry of the `policies` map -/\ndef asymRows : List AsymRow := [%s]\n\nend Opcua.Gen\n", strings.Join(names, ", "))
	return sb.String(), nil
}
