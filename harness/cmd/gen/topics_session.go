package main

// Generator topic of C22 (session only after the server proved its identity):
// three facts about error propagation read from the source with go/ast.  The
// model `Session.connect` is parameterised by them, so that the Lean driver
// compares the real client with the model of the code as it is NOW (defect
// present or repaired) and the theorems of Props/C22.lean cover both.

import (
	"fmt"
	"go/ast"
	"go/parser"
	"go/token"
	"path/filepath"
	"strings"
)

func init() { register("sessionfacts", "SessionFacts.lean", genSessionFacts) }

func sessFindFunc(f *ast.File, recv, name string) *ast.FuncDecl {
	for _, d := range f.Decls {
		fd, ok := d.(*ast.FuncDecl)
		if !ok || fd.Name.Name != name || fd.Body == nil {
			continue
		}
		if recv == "" && fd.Recv == nil {
			return fd
		}
		if fd.Recv != nil && len(fd.Recv.List) == 1 {
			t := fd.Recv.List[0].Type
			if s, ok := t.(*ast.StarExpr); ok {
				t = s.X
			}
			if id, ok := t.(*ast.Ident); ok && id.Name == recv {
				return fd
			}
		}
	}
	return nil
}

func sessIsCallTo(e ast.Expr, method string) bool {
	c, ok := e.(*ast.CallExpr)
	if !ok {
		return false
	}
	s, ok := c.Fun.(*ast.SelectorExpr)
	return ok && s.Sel.Name == method
}

func sessIsErrNotNil(e ast.Expr) bool {
	b, ok := e.(*ast.BinaryExpr)
	if !ok || b.Op != token.NEQ {
		return false
	}
	x, ok1 := b.X.(*ast.Ident)
	y, ok2 := b.Y.(*ast.Ident)
	return ok1 && ok2 && x.Name == "err" && y.Name == "nil"
}

// sessLastReturn gives the single result expression of the last statement of
// a block when it is a return.
func sessLastReturn(b *ast.BlockStmt) (ast.Expr, bool) {
	if len(b.List) == 0 {
		return nil, false
	}
	r, ok := b.List[len(b.List)-1].(*ast.ReturnStmt)
	if !ok || len(r.Results) == 0 {
		return nil, false
	}
	return r.Results[len(r.Results)-1], true
}

func sessIsNilIdent(e ast.Expr) bool {
	id, ok := e.(*ast.Ident)
	return ok && id.Name == "nil"
}

// sessVerifyErrReturned: in CreateSession, does the error branch after
// VerifySessionSignature return a non-nil error?
func sessVerifyErrReturned(fd *ast.FuncDecl) (bool, error) {
	found, res := false, false
	var err error
	ast.Inspect(fd.Body, func(n ast.Node) bool {
		blk, ok := n.(*ast.BlockStmt)
		if !ok {
			return true
		}
		for i, st := range blk.List {
			// form 1:  err := sc.VerifySessionSignature(...) ; if err != nil { ...; return X }
			if as, ok := st.(*ast.AssignStmt); ok && len(as.Rhs) == 1 && sessIsCallTo(as.Rhs[0], "VerifySessionSignature") {
				if i+1 >= len(blk.List) {
					err = fmt.Errorf("CreateSession: VerifySessionSignature result is not checked")
					return false
				}
				ifs, ok := blk.List[i+1].(*ast.IfStmt)
				if !ok || !sessIsErrNotNil(ifs.Cond) {
					err = fmt.Errorf("CreateSession: statement after VerifySessionSignature is not `if err != nil`")
					return false
				}
				x, ok := sessLastReturn(ifs.Body)
				if !ok {
					err = fmt.Errorf("CreateSession: error branch after VerifySessionSignature does not end in a return")
					return false
				}
				found, res = true, !sessIsNilIdent(x)
			}
			// form 2:  if err := sc.VerifySessionSignature(...); err != nil { ...; return X }
			if ifs, ok := st.(*ast.IfStmt); ok && ifs.Init != nil {
				if as, ok := ifs.Init.(*ast.AssignStmt); ok && len(as.Rhs) == 1 && sessIsCallTo(as.Rhs[0], "VerifySessionSignature") && sessIsErrNotNil(ifs.Cond) {
					x, ok := sessLastReturn(ifs.Body)
					if !ok {
						err = fmt.Errorf("CreateSession: error branch after VerifySessionSignature does not end in a return")
						return false
					}
					found, res = true, !sessIsNilIdent(x)
				}
			}
		}
		return true
	})
	if err != nil {
		return false, err
	}
	if !found {
		return false, fmt.Errorf("CreateSession: no call of VerifySessionSignature found")
	}
	return res, nil
}

// sessRsaAssertChecked: in VerifySessionSignature, is the `.(*rsa.PublicKey)`
// assertion the comma-ok form?
func sessRsaAssertChecked(fd *ast.FuncDecl) (bool, error) {
	total, checked := 0, 0
	ast.Inspect(fd.Body, func(nd ast.Node) bool {
		switch x := nd.(type) {
		case *ast.TypeAssertExpr:
			if x.Type != nil {
				total++
			}
		case *ast.AssignStmt:
			if len(x.Lhs) == 2 && len(x.Rhs) == 1 {
				if ta, ok := x.Rhs[0].(*ast.TypeAssertExpr); ok && ta.Type != nil {
					checked++
				}
			}
		}
		return true
	})
	if total == 0 {
		return false, fmt.Errorf("VerifySessionSignature: no type assertion on the public key found; re-model the function")
	}
	return checked == total, nil
}

// sessNilChecked: does the function return early on `s == nil` (s = its *Session parameter / variable)?
func sessNilChecked(fd *ast.FuncDecl) bool {
	res := false
	ast.Inspect(fd.Body, func(n ast.Node) bool {
		ifs, ok := n.(*ast.IfStmt)
		if !ok {
			return true
		}
		b, ok := ifs.Cond.(*ast.BinaryExpr)
		if !ok || b.Op != token.EQL {
			return true
		}
		x, ok1 := b.X.(*ast.Ident)
		y, ok2 := b.Y.(*ast.Ident)
		if ok1 && ok2 && x.Name == "s" && y.Name == "nil" {
			if r, ok := sessLastReturn(ifs.Body); ok && !sessIsNilIdent(r) {
				res = true
			}
		}
		return true
	})
	return res
}

func genSessionFacts(repo string) (string, error) {
	fset := token.NewFileSet()
	cl, err := parser.ParseFile(fset, filepath.Join(repo, "client.go"), nil, 0)
	if err != nil {
		return "", err
	}
	cr, err := parser.ParseFile(fset, filepath.Join(repo, "uasc", "secure_channel_crypto.go"), nil, 0)
	if err != nil {
		return "", err
	}
	create := sessFindFunc(cl, "Client", "CreateSession")
	activate := sessFindFunc(cl, "Client", "ActivateSession")
	connect := sessFindFunc(cl, "Client", "Connect")
	verify := sessFindFunc(cr, "SecureChannel", "VerifySessionSignature")
	if create == nil || activate == nil || connect == nil || verify == nil {
		return "", fmt.Errorf("CreateSession / ActivateSession / Connect / VerifySessionSignature not found")
	}
	f1, err := sessVerifyErrReturned(create)
	if err != nil {
		return "", err
	}
	f2, err := sessRsaAssertChecked(verify)
	if err != nil {
		return "", err
	}
	f3 := sessNilChecked(activate) || sessNilChecked(connect)
	var sb strings.Builder
	sb.WriteString("import OpcuaModel.Model.Session\nnamespace Opcua.Gen\nopen Opcua\n\n")
	sb.WriteString("/-- read from client.go (CreateSession, ActivateSession, Connect) and\n    uasc/secure_channel_crypto.go (VerifySessionSignature) with go/ast -/\n")
	fmt.Fprintf(&sb, "def sessionFacts : Session.CodeFacts :=\n  { verifyErrReturned := %v, rsaAssertChecked := %v, nilSessionChecked := %v }\n\n", f1, f2, f3)
	sb.WriteString("end Opcua.Gen\n")
	return sb.String(), nil
}
