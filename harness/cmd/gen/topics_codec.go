package main

// Generator topic `types` (properties C01-C03): a reflection walk over both
// `ua` type registries (through the verif hook ua/verif_codec.go) that emits
// one `Ty` descriptor per registered struct type, with the fields in the order
// and with the kinds `ua/encode.go` and `ua/decode.go` see them.  Anything the
// model has no constructor for (arrays, maps, interfaces, value-typed structs
// with a custom codec, pointer to pointer, registry keys that are not `i=N`)
// makes the topic fail, so that the obligations importing Gen/Types.lean fail
// rather than silently ignore a type.

import (
	"fmt"
	"reflect"
	"sort"
	"strconv"
	"strings"
	"time"

	"github.com/gopcua/opcua/ua"
)

func init() {
	register("types", "Types.lean", genTypes)
}

var (
	codecEnc  = reflect.TypeOf((*ua.BinaryEncoder)(nil)).Elem()
	codecDec  = reflect.TypeOf((*ua.BinaryDecoder)(nil)).Elem()
	codecTime = reflect.TypeOf(time.Time{})
)

// customTy maps the pointer types with hand-written codecs to the model's constructors.
var customTy = map[reflect.Type]string{
	reflect.TypeOf((*ua.GUID)(nil)):            ".guid",
	reflect.TypeOf((*ua.NodeID)(nil)):          ".nodeId",
	reflect.TypeOf((*ua.ExpandedNodeID)(nil)):  ".expNodeId",
	reflect.TypeOf((*ua.LocalizedText)(nil)):   ".locText",
	reflect.TypeOf((*ua.DiagnosticInfo)(nil)):  ".diag",
	reflect.TypeOf((*ua.DataValue)(nil)):       ".dataValue",
	reflect.TypeOf((*ua.Variant)(nil)):         ".variant",
	reflect.TypeOf((*ua.ExtensionObject)(nil)): ".extObj",
}

type typeWalk struct {
	defs  []string                // definitions in dependency order
	names map[reflect.Type]string // struct type -> Lean name
	busy  map[reflect.Type]bool
	byNm  map[string]reflect.Type
}

// expr returns the Lean term for the Go type t.
func (w *typeWalk) expr(t reflect.Type, top bool) (string, error) {
	enc, dec := t.Implements(codecEnc), t.Implements(codecDec)
	if enc || dec {
		c, ok := customTy[t]
		if !ok || !enc || !dec {
			return "", fmt.Errorf("type %s implements a custom codec (enc=%v dec=%v) the model does not know", t, enc, dec)
		}
		return c, nil
	}
	if t.Kind() == reflect.Struct && t.ConvertibleTo(codecTime) {
		return ".time", nil
	}
	switch t.Kind() {
	case reflect.Bool:
		return ".bool", nil
	case reflect.Int8, reflect.Uint8:
		return "(.int 1)", nil
	case reflect.Int16, reflect.Uint16:
		return "(.int 2)", nil
	case reflect.Int32, reflect.Uint32:
		return "(.int 4)", nil
	case reflect.Int64, reflect.Uint64:
		return "(.int 8)", nil
	case reflect.Float32:
		return ".f32", nil
	case reflect.Float64:
		return ".f64", nil
	case reflect.String:
		return ".string", nil
	case reflect.Slice:
		if t.Elem().Kind() == reflect.Uint8 {
			return ".bytes", nil
		}
		e, err := w.expr(t.Elem(), false)
		if err != nil {
			return "", err
		}
		return "(.slice " + e + ")", nil
	case reflect.Ptr:
		if t.Elem().Kind() == reflect.Ptr {
			return "", fmt.Errorf("pointer to pointer %s", t)
		}
		if reflect.PtrTo(t.Elem()) != t {
			return "", fmt.Errorf("odd pointer %s", t)
		}
		e, err := w.expr(t.Elem(), false)
		if err != nil {
			return "", err
		}
		return "(.ptr " + e + ")", nil
	case reflect.Struct:
		if reflect.PtrTo(t).Implements(codecEnc) || reflect.PtrTo(t).Implements(codecDec) {
			return "", fmt.Errorf("struct %s with a custom codec is used by value", t)
		}
		n, err := w.structDef(t)
		if err != nil {
			return "", err
		}
		return n, nil
	default:
		return "", fmt.Errorf("unsupported kind %s (%s)", t.Kind(), t)
	}
}

func (w *typeWalk) structDef(t reflect.Type) (string, error) {
	if n, ok := w.names[t]; ok {
		return n, nil
	}
	if w.busy[t] {
		return "", fmt.Errorf("recursive struct type %s", t)
	}
	if t.PkgPath() != "github.com/gopcua/opcua/ua" || t.Name() == "" {
		return "", fmt.Errorf("struct %s is not a named ua type", t)
	}
	w.busy[t] = true
	var fs, doc []string
	for i := 0; i < t.NumField(); i++ {
		f := t.Field(i)
		if !f.IsExported() {
			return "", fmt.Errorf("unexported field %s.%s", t, f.Name)
		}
		e, err := w.expr(f.Type, false)
		if err != nil {
			return "", fmt.Errorf("%s.%s: %v", t.Name(), f.Name, err)
		}
		fs = append(fs, e)
		doc = append(doc, f.Name+" "+f.Type.String())
	}
	delete(w.busy, t)
	n := "T_" + t.Name()
	if o, dup := w.byNm[n]; dup && o != t {
		return "", fmt.Errorf("name clash %s", n)
	}
	w.byNm[n] = t
	w.names[t] = n
	w.defs = append(w.defs, fmt.Sprintf("/-- ua.%s { %s } -/\ndef %s : Ty := .struct [%s]\n", t.Name(), strings.Join(doc, "; "), n, strings.Join(fs, ", ")))
	return n, nil
}

func regKey(id string) (int, error) {
	if !strings.HasPrefix(id, "i=") {
		return 0, fmt.Errorf("registry key %q is not of the form i=N", id)
	}
	n, err := strconv.Atoi(id[2:])
	if err != nil || n < 0 || n > 0xffffffff || strconv.Itoa(n) != id[2:] {
		return 0, fmt.Errorf("registry key %q is not of the form i=N", id)
	}
	return n, nil
}

func genTypes(repo string) (string, error) {
	w := &typeWalk{names: map[reflect.Type]string{}, busy: map[reflect.Type]bool{}, byNm: map[string]reflect.Type{}}
	type ent struct {
		id   int
		name string
		lean string
	}
	table := func(es []ua.VerifRegEntry) ([]ent, error) {
		var out []ent
		for _, e := range es {
			id, err := regKey(e.ID)
			if err != nil {
				return nil, err
			}
			if e.Type.Kind() != reflect.Ptr || e.Type.Elem().Kind() != reflect.Struct {
				return nil, fmt.Errorf("registered type %s (%s) is not a pointer to a struct", e.Type, e.ID)
			}
			if e.Type.Implements(codecEnc) || e.Type.Implements(codecDec) {
				return nil, fmt.Errorf("registered type %s has a custom codec", e.Type)
			}
			n, err := w.structDef(e.Type.Elem())
			if err != nil {
				return nil, err
			}
			out = append(out, ent{id, e.Type.Elem().Name(), n})
		}
		sort.Slice(out, func(i, j int) bool { return out[i].id < out[j].id })
		return out, nil
	}
	eo, err := table(ua.VerifExtensionObjectTypes())
	if err != nil {
		return "", err
	}
	sv, err := table(ua.VerifServiceTypes())
	if err != nil {
		return "", err
	}
	if len(eo) == 0 || len(sv) == 0 {
		return "", fmt.Errorf("empty registry (ext=%d svc=%d)", len(eo), len(sv))
	}
	// QualifiedName is decoded reflectively inside Variant; make sure the model's inline descriptor is still right
	qn, err := w.expr(reflect.TypeOf((*ua.QualifiedName)(nil)), false)
	if err != nil {
		return "", err
	}
	xml, err := w.expr(reflect.TypeOf((*ua.XMLElement)(nil)), false)
	if err != nil {
		return "", err
	}
	var sb strings.Builder
	sb.WriteString("import OpcuaModel.Model.CodecTy\nnamespace Opcua.Gen\nopen Opcua.Codec\nset_option maxRecDepth 4096\n\n")
	for _, d := range w.defs {
		sb.WriteString(d)
		sb.WriteString("\n")
	}
	fmt.Fprintf(&sb, "/-- `*ua.QualifiedName` as the reflective codec sees it -/\ndef tyQualifiedNamePtr : Ty := %s\n\n", qn)
	fmt.Fprintf(&sb, "/-- `*ua.XMLElement` as the reflective codec sees it -/\ndef tyXMLElementPtr : Ty := %s\n\n", xml)
	wr := func(name, doc string, es []ent) {
		fmt.Fprintf(&sb, "/-- %s (%d entries, sorted by id) -/\ndef %s : List RegEntry := [\n", doc, len(es), name)
		for i, e := range es {
			sep := ","
			if i == len(es)-1 {
				sep = ""
			}
			fmt.Fprintf(&sb, "  ⟨%d, %q, %s⟩%s\n", e.id, e.name, e.lean, sep)
		}
		sb.WriteString("]\n\n")
	}
	wr("extObjTypes", "the extension object registry `eotypes`", eo)
	wr("serviceTypes", "the service registry `svcreg`", sv)
	var all []string
	for _, n := range sortedNames(w.names) {
		all = append(all, fmt.Sprintf("(%q, %s)", strings.TrimPrefix(n, "T_"), n))
	}
	fmt.Fprintf(&sb, "/-- every struct type reachable from the registries (%d), by Go name -/\ndef namedTypes : List (String × Ty) := [\n  %s\n]\n\n", len(all), strings.Join(all, ",\n  "))
	sb.WriteString("end Opcua.Gen\n")
	return sb.String(), nil
}

func sortedNames(m map[reflect.Type]string) []string {
	var out []string
	for _, n := range m {
		out = append(out, n)
	}
	sort.Strings(out)
	return out
}
