package main

// Topic "srvsec" (C30): facts about where the server's enabled security
// settings are consulted and where the server-side channel configuration is
// written.  The C30 model says "OpenSecureChannel acceptance never looks at
// enabledSec; policy and mode of the channel are copied from the client's
// request"; the facts below pin exactly that in the source, so that a change
// (e.g. a new check against enabledSec) changes Gen/SrvSec.lean and breaks
// `theorem C30_facts … := by decide` until the model is adapted.

import (
	"fmt"
	"go/ast"
	"go/parser"
	"go/token"
	"go/types"
	"os"
	"path/filepath"
	"sort"
	"strings"

	"github.com/gopcua/opcua/uapolicy"
)

func init() { register("srvsec", "SrvSec.lean", genSrvSec) }

// srvsecGoFiles lists the non-test, non-hook Go files of a package directory.
func srvsecGoFiles(dir string) ([]string, error) {
	ents, err := os.ReadDir(dir)
	if err != nil {
		return nil, err
	}
	var out []string
	for _, e := range ents {
		n := e.Name()
		if !strings.HasSuffix(n, ".go") || strings.HasSuffix(n, "_test.go") || strings.HasPrefix(n, "verif_") {
			continue
		}
		out = append(out, filepath.Join(dir, n))
	}
	sort.Strings(out)
	return out, nil
}

// srvsecSelChain renders a selector chain a.b.c as "a.b.c" ("" if e is not one).
func srvsecSelChain(e ast.Expr) string {
	switch x := e.(type) {
	case *ast.Ident:
		return x.Name
	case *ast.SelectorExpr:
		p := srvsecSelChain(x.X)
		if p == "" {
			return ""
		}
		return p + "." + x.Sel.Name
	}
	return ""
}

func srvsecLeanStr(s string) string {
	return "\"" + strings.ReplaceAll(strings.ReplaceAll(s, "\\", "\\\\"), "\"", "\\\"") + "\""
}

func srvsecLeanList(xs []string) string {
	q := make([]string, len(xs))
	for i, x := range xs {
		q[i] = srvsecLeanStr(x)
	}
	return "[" + strings.Join(q, ", ") + "]"
}

func genSrvSec(repo string) (string, error) {
	fset := token.NewFileSet()

	// 1. who reads enabledSec (packages server and uasc)
	var readers []string
	for _, pkg := range []string{"server", "uasc"} {
		files, err := srvsecGoFiles(filepath.Join(repo, pkg))
		if err != nil {
			return "", err
		}
		for _, fn := range files {
			f, err := parser.ParseFile(fset, fn, nil, 0)
			if err != nil {
				return "", err
			}
			for _, d := range f.Decls {
				fd, ok := d.(*ast.FuncDecl)
				if !ok || fd.Body == nil {
					continue
				}
				uses := false
				ast.Inspect(fd.Body, func(n ast.Node) bool {
					if s, ok := n.(*ast.SelectorExpr); ok && s.Sel.Name == "enabledSec" {
						uses = true
					}
					return true
				})
				if uses {
					readers = append(readers, pkg+"/"+filepath.Base(fn)+":"+fd.Name.Name)
				}
			}
		}
	}
	sort.Strings(readers)

	// 2. writes to the channel configuration's policy / mode in uasc
	type write struct{ fn, field, rhs string }
	var writes []write
	files, err := srvsecGoFiles(filepath.Join(repo, "uasc"))
	if err != nil {
		return "", err
	}
	for _, fn := range files {
		f, err := parser.ParseFile(fset, fn, nil, 0)
		if err != nil {
			return "", err
		}
		for _, d := range f.Decls {
			fd, ok := d.(*ast.FuncDecl)
			if !ok || fd.Body == nil {
				continue
			}
			ast.Inspect(fd.Body, func(n ast.Node) bool {
				as, ok := n.(*ast.AssignStmt)
				if !ok || len(as.Lhs) != len(as.Rhs) {
					return true
				}
				for i, l := range as.Lhs {
					ch := srvsecSelChain(l)
					for _, fld := range []string{"SecurityPolicyURI", "SecurityMode"} {
						if strings.HasSuffix(ch, "cfg."+fld) {
							writes = append(writes, write{fd.Name.Name, fld, types.ExprString(as.Rhs[i])})
						}
					}
				}
				return true
			})
		}
	}
	sort.Slice(writes, func(i, j int) bool {
		if writes[i].fn != writes[j].fn {
			return writes[i].fn < writes[j].fn
		}
		return writes[i].field < writes[j].field
	})

	// 3. the configuration every server-side channel starts with
	defPolicy, defMode := "", ""
	{
		f, err := parser.ParseFile(fset, filepath.Join(repo, "server", "server_config.go"), nil, 0)
		if err != nil {
			return "", err
		}
		for _, d := range f.Decls {
			fd, ok := d.(*ast.FuncDecl)
			if !ok || fd.Name.Name != "defaultChannelConfig" || fd.Body == nil {
				continue
			}
			ast.Inspect(fd.Body, func(n ast.Node) bool {
				kv, ok := n.(*ast.KeyValueExpr)
				if !ok {
					return true
				}
				if k, ok := kv.Key.(*ast.Ident); ok {
					switch k.Name {
					case "SecurityPolicyURI":
						defPolicy = types.ExprString(kv.Value)
					case "SecurityMode":
						defMode = types.ExprString(kv.Value)
					}
				}
				return true
			})
		}
		if defPolicy == "" || defMode == "" {
			return "", fmt.Errorf("defaultChannelConfig: policy/mode literal not found")
		}
	}

	// 3b. is the requested (policy, mode) pair submitted to the server's enabled set before it is adopted?
	// handleOpenSecureChannelRequest must consult cfg.AcceptSecurity and RegisterConn must install it.
	usesAccept := func(dir, fn string) (bool, error) {
		fd, err := srvrobFindFunc(fset, filepath.Join(repo, dir), fn)
		if err != nil {
			return false, err
		}
		found := false
		ast.Inspect(fd.Body, func(n ast.Node) bool {
			if s, ok := n.(*ast.SelectorExpr); ok && s.Sel.Name == "AcceptSecurity" {
				found = true
			}
			return true
		})
		return found, nil
	}
	a1, err := usesAccept("uasc", "handleOpenSecureChannelRequest")
	if err != nil {
		return "", err
	}
	a2, err := usesAccept("server", "RegisterConn")
	if err != nil {
		return "", err
	}

	// 3c. does New() enable None/None when no EnableSecurity option was given?
	defaultsToNone := false
	{
		fd, err := srvrobFindFunc(fset, filepath.Join(repo, "server"), "New")
		if err != nil {
			return "", err
		}
		ast.Inspect(fd.Body, func(n ast.Node) bool {
			ifs, ok := n.(*ast.IfStmt)
			if !ok || !strings.Contains(types.ExprString(ifs.Cond), "enabledSec") {
				return true
			}
			ast.Inspect(ifs.Body, func(m ast.Node) bool {
				if c, ok := m.(*ast.CallExpr); ok && strings.Contains(types.ExprString(c.Fun), "EnableSecurity") {
					defaultsToNone = true
				}
				return true
			})
			return true
		})
	}

	// 4. the policies the code supports (evaluated)
	var pols []string
	for _, p := range uapolicy.SupportedPolicies() {
		pols = append(pols, shortPolicySrvsec(p))
	}

	var sb strings.Builder
	sb.WriteString("namespace Opcua.Gen.SrvSec\n\n")
	sb.WriteString("/-- short names of `uapolicy.SupportedPolicies()` -/\n")
	fmt.Fprintf(&sb, "def supportedPolicies : List String := %s\n\n", srvsecLeanList(pols))
	sb.WriteString("/-- every function of packages server and uasc (hook files excluded) that mentions `enabledSec` -/\n")
	fmt.Fprintf(&sb, "def enabledSecReaders : List String := %s\n\n", srvsecLeanList(readers))
	sb.WriteString("/-- every assignment to `….cfg.SecurityPolicyURI` / `….cfg.SecurityMode` in package uasc: (function, field) -/\n")
	sb.WriteString("def chanCfgWrites : List (String × String) := [")
	for i, w := range writes {
		if i > 0 {
			sb.WriteString(", ")
		}
		fmt.Fprintf(&sb, "(%s, %s)", srvsecLeanStr(w.fn), srvsecLeanStr(w.field))
	}
	sb.WriteString("]\n\n")
	sb.WriteString("/-- handleOpenSecureChannelRequest asks `cfg.AcceptSecurity` and RegisterConn installs the server's predicate -/\n")
	fmt.Fprintf(&sb, "def opnChecksEnabled : Bool := %v\n\n", a1 && a2)
	sb.WriteString("/-- `server.New` enables None / None when the options enabled nothing -/\n")
	fmt.Fprintf(&sb, "def defaultsToNone : Bool := %v\n\n", defaultsToNone)
	sb.WriteString("/-- `defaultChannelConfig()` in server/server_config.go -/\n")
	fmt.Fprintf(&sb, "def defaultChannelPolicy : String := %s\n", srvsecLeanStr(defPolicy))
	fmt.Fprintf(&sb, "def defaultChannelMode : String := %s\n\n", srvsecLeanStr(defMode))
	sb.WriteString("end Opcua.Gen.SrvSec\n")
	return sb.String(), nil
}

func shortPolicySrvsec(uri string) string { return uri[strings.LastIndex(uri, "#")+1:] }
