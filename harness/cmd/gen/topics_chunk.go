package main

// Generator topic "keyassign" (properties C14, C07, C08): how every symmetric
// policy constructor of uapolicy derives and assigns its keys, extracted from
// the source with go/ast:
//
//   * the `policies` map of uapolicy/securitypolicy.go (URI constant ->
//     symmetric constructor) and the URI strings of ua/enums.go
//   * in each `new…Symmetric(localNonce, remoteNonce)`:
//       - the local constants signatureKeyLength / encryptionKeyLength /
//         encryptionBlockSize (evaluated; AESBlockSize = aes.BlockSize = 16)
//       - `localHmac := &HMAC{Hash: crypto.X, Secret: <nonce>}` (same for remoteHmac)
//       - `localKeys := generateKeys(<hmac>, <seed nonce>, a, b, c)` (same for remoteKeys)
//       - the fields encrypt / decrypt (`&AES{KeyLength: n, IV: <ks>.iv, Secret: <ks>.encryption}`)
//         and signature / verifySignature (`&HMAC{Hash: crypto.X, Secret: <ks>.signing}`)
//         of the returned EncryptionAlgorithm
//
// Any other shape makes the topic fail, so that the theorems importing
// Gen/KeyAssign.lean are reported as broken instead of using stale facts.

import (
	"fmt"
	"go/ast"
	"go/parser"
	"go/printer"
	"go/token"
	"io"
	"path/filepath"
	"sort"
	"strconv"
	"strings"
)

func init() { register("keyassign", "KeyAssign.lean", genKeyAssign) }

type kaPkg struct {
	fset   *token.FileSet
	consts map[string]ast.Expr
	funcs  map[string]*ast.FuncDecl
	vars   map[string]ast.Expr
}

func kaParseDir(dir string) (*kaPkg, error) {
	p := &kaPkg{fset: token.NewFileSet(), consts: map[string]ast.Expr{}, funcs: map[string]*ast.FuncDecl{}, vars: map[string]ast.Expr{}}
	names, err := filepath.Glob(filepath.Join(dir, "*.go"))
	if err != nil {
		return nil, err
	}
	sort.Strings(names)
	for _, n := range names {
		if strings.HasSuffix(n, "_test.go") || strings.HasPrefix(filepath.Base(n), "verif_") {
			continue
		}
		f, err := parser.ParseFile(p.fset, n, nil, 0)
		if err != nil {
			return nil, err
		}
		for _, d := range f.Decls {
			switch x := d.(type) {
			case *ast.GenDecl:
				for _, s := range x.Specs {
					vs, ok := s.(*ast.ValueSpec)
					if !ok {
						continue
					}
					for i, nm := range vs.Names {
						if i < len(vs.Values) {
							if x.Tok == token.CONST {
								p.consts[nm.Name] = vs.Values[i]
							} else {
								p.vars[nm.Name] = vs.Values[i]
							}
						}
					}
				}
			case *ast.FuncDecl:
				if x.Recv == nil {
					p.funcs[x.Name.Name] = x
				}
			}
		}
	}
	return p, nil
}

// kaEval evaluates an integer constant expression; local shadows package constants.
func (p *kaPkg) kaEval(e ast.Expr, local map[string]ast.Expr, depth int) (int, error) {
	if depth > 20 {
		return 0, fmt.Errorf("constant too deep")
	}
	switch x := e.(type) {
	case *ast.BasicLit:
		if x.Kind != token.INT {
			return 0, fmt.Errorf("not an integer literal: %s", x.Value)
		}
		v, err := strconv.ParseInt(x.Value, 0, 64)
		return int(v), err
	case *ast.ParenExpr:
		return p.kaEval(x.X, local, depth+1)
	case *ast.Ident:
		if v, ok := local[x.Name]; ok {
			return p.kaEval(v, nil, depth+1)
		}
		if v, ok := p.consts[x.Name]; ok {
			return p.kaEval(v, nil, depth+1)
		}
		return 0, fmt.Errorf("unknown constant %s", x.Name)
	case *ast.SelectorExpr:
		if id, ok := x.X.(*ast.Ident); ok && id.Name == "aes" && x.Sel.Name == "BlockSize" {
			return 16, nil // crypto/aes.BlockSize
		}
		return 0, fmt.Errorf("unknown selector constant")
	case *ast.BinaryExpr:
		a, err := p.kaEval(x.X, local, depth+1)
		if err != nil {
			return 0, err
		}
		b, err := p.kaEval(x.Y, local, depth+1)
		if err != nil {
			return 0, err
		}
		switch x.Op {
		case token.ADD:
			return a + b, nil
		case token.SUB:
			return a - b, nil
		case token.MUL:
			return a * b, nil
		case token.QUO:
			if b == 0 {
				return 0, fmt.Errorf("division by zero")
			}
			return a / b, nil
		}
	}
	return 0, fmt.Errorf("unsupported constant expression %T", e)
}

func kaSel(e ast.Expr) (string, string, bool) {
	s, ok := e.(*ast.SelectorExpr)
	if !ok {
		return "", "", false
	}
	id, ok := s.X.(*ast.Ident)
	if !ok {
		return "", "", false
	}
	return id.Name, s.Sel.Name, true
}

// kaComposite returns the type name and the key/value fields of `&T{...}`.
func kaComposite(e ast.Expr) (string, map[string]ast.Expr, bool) {
	u, ok := e.(*ast.UnaryExpr)
	if !ok || u.Op != token.AND {
		return "", nil, false
	}
	c, ok := u.X.(*ast.CompositeLit)
	if !ok {
		return "", nil, false
	}
	id, ok := c.Type.(*ast.Ident)
	if !ok {
		return "", nil, false
	}
	m := map[string]ast.Expr{}
	for _, el := range c.Elts {
		kv, ok := el.(*ast.KeyValueExpr)
		if !ok {
			return "", nil, false
		}
		k, ok := kv.Key.(*ast.Ident)
		if !ok {
			return "", nil, false
		}
		m[k.Name] = kv.Value
	}
	return id.Name, m, true
}

func kaHash(e ast.Expr) (string, error) {
	a, b, ok := kaSel(e)
	if !ok || a != "crypto" {
		return "", fmt.Errorf("hash is not crypto.X")
	}
	switch b {
	case "SHA1":
		return ".sha1", nil
	case "SHA256":
		return ".sha256", nil
	}
	return "", fmt.Errorf("unsupported hash crypto.%s", b)
}

func kaNonce(e ast.Expr, params [2]string) (string, error) {
	id, ok := e.(*ast.Ident)
	if !ok {
		return "", fmt.Errorf("nonce argument is not an identifier")
	}
	switch id.Name {
	case params[0]:
		return ".localNonce", nil
	case params[1]:
		return ".remoteNonce", nil
	}
	return "", fmt.Errorf("unknown nonce %s", id.Name)
}

type kaHmac struct{ hash, secret string }
type kaKeys struct {
	hmac       kaHmac
	seed       string
	a, b, c    int
	hmacVar    string
	definedVar string
}

func genKeyAssign(repo string) (string, error) {
	uaPkg, err := kaParseDir(filepath.Join(repo, "ua"))
	if err != nil {
		return "", err
	}
	pol, err := kaParseDir(filepath.Join(repo, "uapolicy"))
	if err != nil {
		return "", err
	}
	pm, ok := pol.vars["policies"].(*ast.CompositeLit)
	if !ok {
		return "", fmt.Errorf("uapolicy.policies is not a composite literal")
	}
	type row struct{ short, ctor string }
	var rows []row
	for _, el := range pm.Elts {
		kv, ok := el.(*ast.KeyValueExpr)
		if !ok {
			return "", fmt.Errorf("policies: unexpected element")
		}
		pk, cn, ok := kaSel(kv.Key)
		if !ok || pk != "ua" {
			return "", fmt.Errorf("policies: key is not ua.X")
		}
		uv, ok := uaPkg.consts[cn].(*ast.BasicLit)
		if !ok || uv.Kind != token.STRING {
			return "", fmt.Errorf("ua.%s is not a string constant", cn)
		}
		uri, _ := strconv.Unquote(uv.Value)
		val, ok := kv.Value.(*ast.CompositeLit)
		if !ok || len(val.Elts) != 2 {
			return "", fmt.Errorf("policies[%s]: expected {asymmetric, symmetric}", cn)
		}
		sym, ok := val.Elts[1].(*ast.Ident)
		if !ok {
			return "", fmt.Errorf("policies[%s]: symmetric constructor is not an identifier", cn)
		}
		rows = append(rows, row{uri[strings.LastIndex(uri, "#")+1:], sym.Name})
	}
	sort.Slice(rows, func(i, j int) bool { return rows[i].short < rows[j].short })

	var sb strings.Builder
	sb.WriteString("import OpcuaModel.Model.CryptoKeys\nnamespace Opcua.Gen\nopen Opcua Opcua.Keys\n\n")
	var names []string
	for _, r := range rows {
		fn := pol.funcs[r.ctor]
		if fn == nil {
			return "", fmt.Errorf("constructor %s not found", r.ctor)
		}
		def, err := kaConstructor(pol, fn, r.short)
		if err != nil {
			return "", fmt.Errorf("%s: %v", r.ctor, err)
		}
		if def == "" { // the None policy: no keys
			continue
		}
		sb.WriteString(def)
		names = append(names, "ka"+strings.ReplaceAll(r.short, "_", ""))
	}
	fmt.Fprintf(&sb, "/-- every symmetric policy that derives keys -/\ndef keyAssignRows : List KeyAssign := [%s]\n\nend Opcua.Gen\n", strings.Join(names, ", "))
	return sb.String(), nil
}

func kaConstructor(pol *kaPkg, fn *ast.FuncDecl, short string) (string, error) {
	var params [2]string
	n := 0
	for _, f := range fn.Type.Params.List {
		if len(f.Names) == 0 { // newNoneSymmetric([]byte, []byte)
			continue
		}
		for _, nm := range f.Names {
			if n < 2 {
				params[n] = nm.Name
			}
			n++
		}
	}
	local := map[string]ast.Expr{}
	hmacs := map[string]kaHmac{}
	keys := map[string]kaKeys{}
	var ret map[string]ast.Expr
	for _, st := range fn.Body.List {
		switch s := st.(type) {
		case *ast.DeclStmt:
			gd, ok := s.Decl.(*ast.GenDecl)
			if !ok || gd.Tok != token.CONST {
				return "", fmt.Errorf("unexpected declaration")
			}
			for _, sp := range gd.Specs {
				vs := sp.(*ast.ValueSpec)
				for i, nm := range vs.Names {
					if i < len(vs.Values) {
						local[nm.Name] = vs.Values[i]
					}
				}
			}
		case *ast.AssignStmt:
			if s.Tok != token.DEFINE || len(s.Lhs) != 1 || len(s.Rhs) != 1 {
				return "", fmt.Errorf("unexpected assignment")
			}
			lhs := s.Lhs[0].(*ast.Ident).Name
			if ty, fields, ok := kaComposite(s.Rhs[0]); ok {
				if ty != "HMAC" {
					return "", fmt.Errorf("%s: unexpected type %s", lhs, ty)
				}
				h, err := kaHash(fields["Hash"])
				if err != nil {
					return "", err
				}
				sec, err := kaNonce(fields["Secret"], params)
				if err != nil {
					return "", err
				}
				hmacs[lhs] = kaHmac{h, sec}
				continue
			}
			call, ok := s.Rhs[0].(*ast.CallExpr)
			if !ok {
				return "", fmt.Errorf("%s: unexpected right-hand side", lhs)
			}
			if id, ok := call.Fun.(*ast.Ident); !ok || id.Name != "generateKeys" || len(call.Args) != 5 {
				return "", fmt.Errorf("%s: expected generateKeys(hmac, seed, a, b, c)", lhs)
			}
			hv, ok := call.Args[0].(*ast.Ident)
			if !ok {
				return "", fmt.Errorf("%s: hmac argument", lhs)
			}
			hm, ok := hmacs[hv.Name]
			if !ok {
				return "", fmt.Errorf("%s: unknown hmac %s", lhs, hv.Name)
			}
			seed, err := kaNonce(call.Args[1], params)
			if err != nil {
				return "", err
			}
			var abc [3]int
			for i := 0; i < 3; i++ {
				v, err := pol.kaEval(call.Args[2+i], local, 0)
				if err != nil {
					return "", err
				}
				abc[i] = v
			}
			keys[lhs] = kaKeys{hmac: hm, seed: seed, a: abc[0], b: abc[1], c: abc[2], hmacVar: hv.Name, definedVar: lhs}
		case *ast.ReturnStmt:
			if len(s.Results) != 2 {
				return "", fmt.Errorf("unexpected return")
			}
			ty, fields, ok := kaComposite(s.Results[0])
			if !ok || ty != "EncryptionAlgorithm" {
				return "", fmt.Errorf("return value is not &EncryptionAlgorithm{...}")
			}
			ret = fields
		default:
			return "", fmt.Errorf("unexpected statement %T", st)
		}
	}
	if ret == nil {
		return "", fmt.Errorf("no return")
	}
	if len(keys) == 0 {
		// the None policy: all four functions must be &None{}
		for _, f := range []string{"encrypt", "decrypt", "signature", "verifySignature"} {
			if ty, _, ok := kaComposite(ret[f]); !ok || ty != "None" {
				return "", fmt.Errorf("policy without keys but %s is not &None{}", f)
			}
		}
		return "", nil
	}
	if len(keys) != 2 {
		return "", fmt.Errorf("expected two key sets, found %d", len(keys))
	}
	// the two key sets are named by the variables they are assigned to
	var order []string
	for k := range keys {
		order = append(order, k)
	}
	sort.Strings(order) // "localKeys" < "remoteKeys"
	ksName := func(v string) (string, error) {
		switch v {
		case order[0]:
			return ".first", nil
		case order[1]:
			return ".second", nil
		}
		return "", fmt.Errorf("unknown key set %s", v)
	}
	keyRef := func(e ast.Expr, want string) (string, error) {
		a, b, ok := kaSel(e)
		if !ok || b != want {
			return "", fmt.Errorf("expected <keys>.%s", want)
		}
		return ksName(a)
	}
	aesField := func(name string) (string, int, error) {
		ty, f, ok := kaComposite(ret[name])
		if !ok || ty != "AES" {
			return "", 0, fmt.Errorf("%s is not &AES{...}", name)
		}
		bits, err := pol.kaEval(f["KeyLength"], local, 0)
		if err != nil {
			return "", 0, err
		}
		iv, err := keyRef(f["IV"], "iv")
		if err != nil {
			return "", 0, err
		}
		sec, err := keyRef(f["Secret"], "encryption")
		if err != nil {
			return "", 0, err
		}
		if iv != sec {
			return "", 0, fmt.Errorf("%s: IV and Secret come from different key sets", name)
		}
		return sec, bits, nil
	}
	hmacField := func(name string) (string, string, error) {
		ty, f, ok := kaComposite(ret[name])
		if !ok || ty != "HMAC" {
			return "", "", fmt.Errorf("%s is not &HMAC{...}", name)
		}
		h, err := kaHash(f["Hash"])
		if err != nil {
			return "", "", err
		}
		sec, err := keyRef(f["Secret"], "signing")
		if err != nil {
			return "", "", err
		}
		return sec, h, nil
	}
	encKS, encBits, err := aesField("encrypt")
	if err != nil {
		return "", err
	}
	decKS, decBits, err := aesField("decrypt")
	if err != nil {
		return "", err
	}
	sigKS, sigHash, err := hmacField("signature")
	if err != nil {
		return "", err
	}
	verKS, verHash, err := hmacField("verifySignature")
	if err != nil {
		return "", err
	}
	sigLen, err := pol.kaEval(ret["signatureLength"], local, 0)
	if err != nil {
		return "", err
	}
	ks := func(k kaKeys) string {
		return fmt.Sprintf("{ hash := %s, secret := %s, seed := %s, sigLen := %d, encLen := %d, ivLen := %d }",
			k.hmac.hash, k.hmac.secret, k.seed, k.a, k.b, k.c)
	}
	nm := "ka" + strings.ReplaceAll(short, "_", "")
	return fmt.Sprintf("/-- uapolicy.%s: `%s`, `%s` -/\ndef %s : KeyAssign :=\n  { name := %q,\n    first := %s,\n    second := %s,\n    encrypt := %s, encryptKeyBits := %d, decrypt := %s, decryptKeyBits := %d,\n    signature := %s, signatureHash := %s, verify := %s, verifyHash := %s, signatureLength := %d }\n\n",
		fn.Name.Name, order[0], order[1], nm, short, ks(keys[order[0]]), ks(keys[order[1]]),
		encKS, encBits, decKS, decBits, sigKS, sigHash, verKS, verHash, sigLen), nil
}

// Generator topic "vadfacts" (C07, C08): which defensive guards
// channelInstance.verifyAndDecrypt contains.  The byte model of the function
// (Model/Chunk.lean) follows these flags, so that it mirrors the source with
// and without the guards:
//
//	sigLengthGuard  `if len(b) < headerLength+c.algo.RemoteSignatureLength() { return nil, … }`
//	                before the signature is sliced off
//	paddingGuard    `if paddingLength > len(messageToVerify)-headerLength { return nil, … }`
//	                before the padding is stripped
//
// Any other `if … { return nil, … }` on a length in that function that is not
// one of the known statements makes the topic fail (the model would not know it).
func init() { register("vadfacts", "VadFacts.lean", genVadFacts) }

func genVadFacts(repo string) (string, error) {
	fset := token.NewFileSet()
	f, err := parser.ParseFile(fset, filepath.Join(repo, "uasc", "secure_channel_instance.go"), nil, 0)
	if err != nil {
		return "", err
	}
	var fn *ast.FuncDecl
	for _, d := range f.Decls {
		if x, ok := d.(*ast.FuncDecl); ok && x.Name.Name == "verifyAndDecrypt" && x.Recv != nil {
			fn = x
		}
	}
	if fn == nil {
		return "", fmt.Errorf("channelInstance.verifyAndDecrypt not found")
	}
	src := func(n ast.Node) string {
		var sb strings.Builder
		if err := printerFprint(&sb, fset, n); err != nil {
			return "?"
		}
		return strings.Join(strings.Fields(sb.String()), " ")
	}
	known := map[string]string{
		"len(b) < headerLength+c.algo.RemoteSignatureLength()":                                                                             "sigLengthGuard",
		"paddingLength > len(messageToVerify)-headerLength":                                                                                "paddingGuard",
		"c.sc.cfg.SecurityMode == ua.MessageSecurityModeNone && (c.sc.cfg.SecurityPolicyURI == ua.SecurityPolicyURINone || !isAsymmetric)": "",
		"err != nil": "",
		"err := c.algo.VerifySignature(messageToVerify, signature); err != nil": "",
	}
	flags := map[string]bool{}
	var bad error
	for _, st := range fn.Body.List {
		is, ok := st.(*ast.IfStmt)
		if !ok {
			continue
		}
		// only guards that return
		returns := false
		for _, s := range is.Body.List {
			if _, ok := s.(*ast.ReturnStmt); ok {
				returns = true
			}
		}
		if !returns {
			continue
		}
		cond := src(is.Cond)
		if is.Init != nil {
			cond = src(is.Init) + "; " + cond
		}
		name, ok := known[cond]
		if !ok {
			bad = fmt.Errorf("verifyAndDecrypt has an unknown guard `if %s { return … }`", cond)
			continue
		}
		if name != "" {
			flags[name] = true
		}
	}
	if bad != nil {
		return "", bad
	}
	return fmt.Sprintf("namespace Opcua.Gen\n\n/-- verifyAndDecrypt checks `len(b) < headerLength+RemoteSignatureLength()` before slicing the signature -/\ndef sigLengthGuard : Bool := %v\n\n/-- verifyAndDecrypt checks `paddingLength > len(messageToVerify)-headerLength` before stripping the padding -/\ndef paddingGuard : Bool := %v\n\nend Opcua.Gen\n", flags["sigLengthGuard"], flags["paddingGuard"]), nil
}

func printerFprint(w io.Writer, fset *token.FileSet, n ast.Node) error {
	return printer.Fprint(w, fset, n)
}
