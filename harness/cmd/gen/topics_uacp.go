package main

import (
	"fmt"
	"strings"

	"github.com/gopcua/opcua/uacp"
)

// Topic "uacpdefaults" (C06): the transport limit constants and the two
// default Acknowledge values, evaluated from the linked uacp package (the
// generator is built against the tree under check).  Deliberately no
// syntactic facts about Handshake/srvhandshake: harmless refactorings would
// flip them; the behaviour of the handshake is tied by the C06 differential run.
func init() {
	register("uacpdefaults", "UacpDefaults.lean", genUacpDefaults)
}

func genUacpDefaults(repo string) (string, error) {
	var sb strings.Builder
	sb.WriteString("namespace Opcua.Gen\n\n")
	fmt.Fprintf(&sb, "/-- uacp/conn.go constants -/\ndef defaultReceiveBufSize : Nat := %d\ndef defaultSendBufSize : Nat := %d\ndef defaultMaxChunkCount : Nat := %d\ndef defaultMaxMessageSize : Nat := %d\n\n",
		uint64(uacp.DefaultReceiveBufSize), uint64(uacp.DefaultSendBufSize), uint64(uacp.DefaultMaxChunkCount), uint64(uacp.DefaultMaxMessageSize))
	for _, a := range []struct {
		n string
		v *uacp.Acknowledge
	}{{"clientACK", uacp.DefaultClientACK}, {"serverACK", uacp.DefaultServerACK}} {
		if a.v == nil {
			return "", fmt.Errorf("uacp.Default%s is nil", a.n)
		}
		fmt.Fprintf(&sb, "/-- uacp.Default%s%s -/\ndef %sReceiveBufSize : Nat := %d\ndef %sSendBufSize : Nat := %d\ndef %sMaxMessageSize : Nat := %d\ndef %sMaxChunkCount : Nat := %d\n\n",
			strings.ToUpper(a.n[:1]), a.n[1:], a.n, a.v.ReceiveBufSize, a.n, a.v.SendBufSize, a.n, a.v.MaxMessageSize, a.n, a.v.MaxChunkCount)
	}

	sb.WriteString("end Opcua.Gen\n")
	return sb.String(), nil
}
