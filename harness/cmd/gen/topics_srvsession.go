package main

// Topic "srvsession" (C35, also consumed by C29): the handler registration
// table of server/service_handlers.go and, per handler method, the facts the
// session model depends on: does the method only return
// BadServiceUnsupported, does it look up the session of the request's
// authentication token, and is the result of that lookup compared with nil
// before it is used.  The Lean model of the service dispatch consults this
// table, so a newly registered service, a handler that starts to do real work
// or a new session check changes Gen/SrvSession.lean, the model's predictions
// and `theorem C35_table … := by decide`.

import (
	"fmt"
	"go/ast"
	"go/parser"
	"go/token"
	"go/types"
	"path/filepath"
	"strings"
)

func init() { register("srvsession", "SrvSession.lean", genSrvSession) }

type srvsessMethod struct {
	recv, name string
	decl       *ast.FuncDecl
}

// srvsessMethods parses every non-test, non-hook file of package server.
func srvsessMethods(repo string) (map[string]*srvsessMethod, *ast.FuncDecl, *token.FileSet, error) {
	fset := token.NewFileSet()
	files, err := srvsecGoFiles(filepath.Join(repo, "server"))
	if err != nil {
		return nil, nil, nil, err
	}
	out := map[string]*srvsessMethod{}
	var initH *ast.FuncDecl
	for _, fn := range files {
		f, err := parser.ParseFile(fset, fn, nil, 0)
		if err != nil {
			return nil, nil, nil, err
		}
		for _, d := range f.Decls {
			fd, ok := d.(*ast.FuncDecl)
			if !ok || fd.Body == nil || fd.Recv == nil || len(fd.Recv.List) != 1 {
				continue
			}
			t := fd.Recv.List[0].Type
			if st, ok := t.(*ast.StarExpr); ok {
				t = st.X
			}
			id, ok := t.(*ast.Ident)
			if !ok {
				continue
			}
			if id.Name == "Server" && fd.Name.Name == "initHandlers" {
				initH = fd
			}
			out[id.Name+"."+fd.Name.Name] = &srvsessMethod{id.Name, fd.Name.Name, fd}
		}
	}
	if initH == nil {
		return nil, nil, nil, fmt.Errorf("(*Server).initHandlers not found")
	}
	return out, initH, fset, nil
}

// srvsessIsSessionCall: x.Session(…) (Server.Session, sessionBroker.Session)
func srvsessIsSessionCall(e ast.Expr) bool {
	c, ok := e.(*ast.CallExpr)
	if !ok {
		return false
	}
	s, ok := c.Fun.(*ast.SelectorExpr)
	return ok && s.Sel.Name == "Session"
}

func srvsessFacts(fd *ast.FuncDecl) (unsupported bool, lookup string, nilChecked bool) {
	lookup = "none"
	sessVars := map[string]bool{}
	ast.Inspect(fd.Body, func(n ast.Node) bool {
		switch x := n.(type) {
		case *ast.AssignStmt:
			for i, r := range x.Rhs {
				if srvsessIsSessionCall(r) {
					lookup = "session"
					if i < len(x.Lhs) {
						switch l := x.Lhs[i].(type) {
						case *ast.Ident:
							sessVars[l.Name] = true
						case *ast.SelectorExpr: // sub.Session = s.srv.Session(…)
							sessVars[srvsecSelChain(l)] = true
						}
					}
				}
			}
		case *ast.CallExpr:
			if srvsessIsSessionCall(x) && lookup == "none" {
				lookup = "session"
			}
			if s, ok := x.Fun.(*ast.SelectorExpr); ok && s.Sel.Name == "Close" && strings.HasSuffix(srvsecSelChain(s.X), "sb") {
				lookup = "close" // sessionBroker.Close(token)
			}
		}
		return true
	})
	ast.Inspect(fd.Body, func(n ast.Node) bool {
		ifs, ok := n.(*ast.IfStmt)
		if !ok {
			return true
		}
		if b, ok := ifs.Cond.(*ast.BinaryExpr); ok && b.Op == token.EQL {
			if id, ok := b.Y.(*ast.Ident); ok && id.Name == "nil" {
				if sessVars[srvsecSelChain(b.X)] || srvsessIsSessionCall(b.X) {
					nilChecked = true
				}
			}
		}
		return true
	})
	// "only returns BadServiceUnsupported": the last statement is
	// `return serviceUnsupported(…), nil`
	if n := len(fd.Body.List); n > 0 {
		if r, ok := fd.Body.List[n-1].(*ast.ReturnStmt); ok && len(r.Results) == 2 {
			if c, ok := r.Results[0].(*ast.CallExpr); ok {
				if id, ok := c.Fun.(*ast.Ident); ok && id.Name == "serviceUnsupported" {
					unsupported = true
				}
			}
		}
	}
	return
}

// srvsessItemLoopFacts inspects the loop over MonitoredItemIDs of SetMonitoringMode /
// DeleteMonitoredItems: is a failed lookup (`if !ok`) left with `continue` BEFORE the item is
// dereferenced in the ownership test, and does a failed ownership test `continue`?
func srvsessItemLoopFacts(fd *ast.FuncDecl) (unknownContinues, mismatchContinues bool, err error) {
	var loop *ast.RangeStmt
	ast.Inspect(fd.Body, func(n ast.Node) bool {
		if r, ok := n.(*ast.RangeStmt); ok && loop == nil && strings.Contains(types.ExprString(r.X), "MonitoredItemIDs") {
			loop = r
		}
		return true
	})
	if loop == nil {
		return false, false, fmt.Errorf("%s: no loop over MonitoredItemIDs", fd.Name.Name)
	}
	hasContinue := func(b *ast.BlockStmt) bool {
		found := false
		ast.Inspect(b, func(n ast.Node) bool {
			if br, ok := n.(*ast.BranchStmt); ok && br.Tok == token.CONTINUE {
				found = true
			}
			return true
		})
		return found
	}
	seenMismatch := false
	for _, st := range loop.Body.List {
		ifs, ok := st.(*ast.IfStmt)
		if !ok {
			continue
		}
		cond := types.ExprString(ifs.Cond)
		switch {
		case cond == "!ok":
			if !seenMismatch && hasContinue(ifs.Body) {
				unknownContinues = true
			}
		case strings.Contains(cond, "AuthTokenID"):
			seenMismatch = true
			mismatchContinues = hasContinue(ifs.Body)
		}
	}
	if !seenMismatch {
		return false, false, fmt.Errorf("%s: ownership test not found", fd.Name.Name)
	}
	return
}

func genSrvSession(repo string) (string, error) {
	methods, initH, fset, err := srvsessMethods(repo)
	if err != nil {
		return "", err
	}
	// receiver variables of initHandlers: `x := &T{…}`
	varType := map[string]string{}
	type reg struct{ request, recv, method string }
	var regs []reg
	var bad error
	ast.Inspect(initH.Body, func(n ast.Node) bool {
		switch x := n.(type) {
		case *ast.AssignStmt:
			if len(x.Lhs) == 1 && len(x.Rhs) == 1 {
				if id, ok := x.Lhs[0].(*ast.Ident); ok {
					if u, ok := x.Rhs[0].(*ast.UnaryExpr); ok && u.Op == token.AND {
						if cl, ok := u.X.(*ast.CompositeLit); ok {
							if t, ok := cl.Type.(*ast.Ident); ok {
								varType[id.Name] = t.Name
							}
						}
					}
				}
			}
		case *ast.CallExpr:
			s, ok := x.Fun.(*ast.SelectorExpr)
			if !ok || s.Sel.Name != "RegisterHandler" {
				return true
			}
			if len(x.Args) != 2 {
				bad = fmt.Errorf("%s: RegisterHandler with %d arguments", fset.Position(x.Pos()), len(x.Args))
				return true
			}
			idc := srvsecSelChain(x.Args[0]) // id.ReadRequest_Encoding_DefaultBinary
			h := srvsecSelChain(x.Args[1])   // attr.Read
			if !strings.HasPrefix(idc, "id.") || !strings.HasSuffix(idc, "_Encoding_DefaultBinary") || strings.Count(h, ".") != 1 {
				bad = fmt.Errorf("%s: RegisterHandler(%s, %s) outside the recognised form", fset.Position(x.Pos()), idc, h)
				return true
			}
			p := strings.SplitN(h, ".", 2)
			regs = append(regs, reg{strings.TrimSuffix(strings.TrimPrefix(idc, "id."), "_Encoding_DefaultBinary"), p[0], p[1]})
		}
		return true
	})
	if bad != nil {
		return "", bad
	}
	if len(regs) == 0 {
		return "", fmt.Errorf("initHandlers registers nothing")
	}

	var sb strings.Builder
	sb.WriteString("namespace Opcua.Gen.SrvSession\n\n")
	sb.WriteString("/-- one `s.RegisterHandler(id.<request>_Encoding_DefaultBinary, <recv>.<method>)` of initHandlers\n    with the facts of the method body -/\n")
	sb.WriteString("structure Handler where\n  request : String\n  recv : String\n  method : String\n  /-- the method's last statement is `return serviceUnsupported(…), nil` -/\n  unsupported : Bool\n  /-- \"session\": calls `….Session(…)`; \"close\": calls `sb.Close(…)`; \"none\" -/\n  lookup : String\n  /-- the looked-up session is compared with nil in an `if` -/\n  nilChecked : Bool\n  deriving DecidableEq, Repr\n\n")
	sb.WriteString("def handlers : List Handler := [\n")
	seen := map[string]bool{}
	for i, r := range regs {
		t, ok := varType[r.recv]
		if !ok {
			return "", fmt.Errorf("initHandlers: receiver variable %s has no `&T{}` definition", r.recv)
		}
		m, ok := methods[t+"."+r.method]
		if !ok {
			return "", fmt.Errorf("handler method %s.%s not found", t, r.method)
		}
		if seen[r.request] {
			// RegisterHandler keeps the first registration; later ones are ignored
			continue
		}
		seen[r.request] = true
		un, lk, nc := srvsessFacts(m.decl)
		sep := ","
		if i == len(regs)-1 {
			sep = ""
		}
		fmt.Fprintf(&sb, "  ⟨%q, %q, %q, %v, %q, %v⟩%s\n", r.request, t, r.method, un, lk, nc, sep)
	}
	sb.WriteString("]\n\n")
	// the dispatcher itself: does handleService consult the session before calling the handler?
	hs, ok := methods["Server.handleService"]
	if !ok {
		return "", fmt.Errorf("(*Server).handleService not found")
	}
	_, lk, nc := srvsessFacts(hs.decl)
	sb.WriteString("/-- does `handleService` (the dispatcher) look up / nil-check the session before dispatching -/\n")
	fmt.Fprintf(&sb, "def dispatcherLookup : String := %q\n", lk)
	fmt.Fprintf(&sb, "def dispatcherNilChecked : Bool := %v\n\n", nc)
	// how CreateSubscription picks the new id, and the item loops
	cs, ok := methods["SubscriptionService.CreateSubscription"]
	if !ok {
		return "", fmt.Errorf("CreateSubscription not found")
	}
	byLen := false
	ast.Inspect(cs.decl.Body, func(n ast.Node) bool {
		if c, ok := n.(*ast.CallExpr); ok {
			if id, ok := c.Fun.(*ast.Ident); ok && id.Name == "len" && len(c.Args) == 1 && strings.HasSuffix(types.ExprString(c.Args[0]), ".Subs") {
				byLen = true
			}
		}
		return true
	})
	sb.WriteString("/-- CreateSubscription derives the new id from `len(s.Subs)` (true) / from a counter that is never reused (false) -/\n")
	fmt.Fprintf(&sb, "def subIdByLen : Bool := %v\n\n", byLen)
	for _, m := range []struct{ method, lean string }{{"SetMonitoringMode", "setMode"}, {"DeleteMonitoredItems", "delItems"}} {
		md, ok := methods["MonitoredItemService."+m.method]
		if !ok {
			return "", fmt.Errorf("%s not found", m.method)
		}
		u, mm, err := srvsessItemLoopFacts(md.decl)
		if err != nil {
			return "", err
		}
		fmt.Fprintf(&sb, "/-- %s: an unknown item id is answered and skipped before the item is dereferenced -/\ndef %sUnknownContinues : Bool := %v\n", m.method, m.lean, u)
		fmt.Fprintf(&sb, "/-- %s: an item of another session is answered BadSessionIDInvalid and skipped -/\ndef %sMismatchContinues : Bool := %v\n\n", m.method, m.lean, mm)
	}
	// the two session-signature helpers of package uasc the session services call: is the
	// `.(*rsa.PublicKey)` assertion on the peer certificate's key checked (`key, ok := …`)?
	for _, m := range []struct{ fn, lean string }{{"NewSessionSignature", "newSessionSignatureChecked"}, {"VerifySessionSignature", "verifySessionSignatureChecked"}} {
		fd, err := srvrobFindFunc(fset, filepath.Join(repo, "uasc"), m.fn)
		if err != nil {
			return "", err
		}
		found, checked := false, true
		ast.Inspect(fd.Body, func(n ast.Node) bool {
			as, ok := n.(*ast.AssignStmt)
			if !ok || len(as.Rhs) != 1 {
				return true
			}
			if ta, ok := as.Rhs[0].(*ast.TypeAssertExpr); ok && strings.Contains(types.ExprString(ta.Type), "rsa.PublicKey") {
				found = true
				if len(as.Lhs) < 2 {
					checked = false
				}
			}
			return true
		})
		if !found {
			checked = true // no assertion at all
		}
		fmt.Fprintf(&sb, "/-- uasc.%s: the RSA type assertion on the certificate's key is checked (or absent) -/\ndef %s : Bool := %v\n", m.fn, m.lean, checked)
	}
	// FindServers: `….Endpoints()[0]` (or `x[0]`) without any len() test
	{
		fs, ok := methods["DiscoveryService.FindServers"]
		if !ok {
			return "", fmt.Errorf("FindServers not found")
		}
		idx0, hasLen := false, false
		ast.Inspect(fs.decl.Body, func(n ast.Node) bool {
			switch x := n.(type) {
			case *ast.IndexExpr:
				if lit, ok := x.Index.(*ast.BasicLit); ok && lit.Value == "0" {
					idx0 = true
				}
			case *ast.CallExpr:
				if id, ok := x.Fun.(*ast.Ident); ok && id.Name == "len" {
					hasLen = true
				}
			}
			return true
		})
		fmt.Fprintf(&sb, "/-- FindServers does not index the endpoint list without testing its length -/\ndef findServersChecksEndpoints : Bool := %v\n", !idx0 || hasLen)
	}
	// Node.DataType: is every `.(*ua.ExpandedNodeID)` assertion of the comma-ok form?
	{
		dt, ok := methods["Node.DataType"]
		if !ok {
			return "", fmt.Errorf("Node.DataType not found")
		}
		checked := true
		okForm := map[ast.Expr]bool{}
		ast.Inspect(dt.decl.Body, func(n ast.Node) bool {
			if as, ok := n.(*ast.AssignStmt); ok && len(as.Lhs) == 2 && len(as.Rhs) == 1 {
				okForm[as.Rhs[0]] = true
			}
			return true
		})
		ast.Inspect(dt.decl.Body, func(n ast.Node) bool {
			if ta, ok := n.(*ast.TypeAssertExpr); ok && ta.Type != nil && !okForm[ta] {
				checked = false
			}
			return true
		})
		fmt.Fprintf(&sb, "/-- Node.DataType: the type assertion on the DataType attribute's value is checked -/\ndef dataTypeAssertionChecked : Bool := %v\n", checked)
	}
	// CreateSubscription: is the requested publishing interval revised by a helper before it is used?
	{
		revised := false
		ast.Inspect(cs.decl.Body, func(n ast.Node) bool {
			if c, ok := n.(*ast.CallExpr); ok {
				name := strings.ToLower(types.ExprString(c.Fun))
				if strings.Contains(name, "revise") && strings.Contains(name, "interval") {
					revised = true
				}
			}
			return true
		})
		fmt.Fprintf(&sb, "/-- CreateSubscription passes the requested publishing interval through a revise…Interval helper -/\ndef publishingIntervalRevised : Bool := %v\n", revised)
	}
	sb.WriteString("\nend Opcua.Gen.SrvSession\n")
	return strings.ReplaceAll(sb.String(), ",\n]", "\n]"), nil
}
