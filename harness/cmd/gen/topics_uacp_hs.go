package main

import (
	"context"
	"fmt"
	"net"
	"strings"
	"time"

	"github.com/gopcua/opcua/uacp"
)

// Topic "handshake" (C06): the negotiation function of the tree under check,
// extracted by RUNNING it.  For a table of configurations the real
// uacp.Listen/Accept (srvhandshake) and uacp.Dialer.Dial (Handshake) talk over
// loopback; recorded are the four limits each Conn ends up with.  From rows
// whose eight inputs are pairwise different the generator infers, for each of
// the eight outputs, an expression over the inputs out of a small language
//
//	x | if x = 0 then K else x | min x y
//
// (field copy, field copy with a default for zero, the smaller of two fields —
// what a negotiation by the book would compute), checks it against ALL rows
// (zeros, equal values, random values included) and writes the expressions as
// Lean definitions together with the observed rows.  Props/C06 proves that the
// model's `negotiate` IS these definitions and reproduces every row; a change
// of the negotiation logic therefore changes the generated definitions (or
// makes the inference fail) and the theorems about the model no longer go
// through unchanged.
func init() {
	register("handshake", "Handshake.lean", genHandshake)
}

type hsRow struct {
	in  [8]uint32 // hello rcv snd maxMsg maxChunks, ack rcv snd maxMsg maxChunks
	out [8]uint32 // client Conn rcv snd maxMsg maxChunks, server Conn rcv snd maxMsg maxChunks
}

var hsNames = [8]string{"hRcv", "hSnd", "hMsg", "hChunks", "aRcv", "aSnd", "aMsg", "aChunks"}
var hsOut = [8]string{"hsClientRcv", "hsClientSnd", "hsClientMaxMsg", "hsClientMaxChunks", "hsServerRcv", "hsServerSnd", "hsServerMaxMsg", "hsServerMaxChunks"}

func hsRun(in [8]uint32) (out [8]uint32, err error) {
	ctx, cancel := context.WithTimeout(context.Background(), 20*time.Second)
	defer cancel()
	ln, err := uacp.Listen(ctx, "opc.tcp://127.0.0.1:0", &uacp.Acknowledge{ReceiveBufSize: in[4], SendBufSize: in[5], MaxMessageSize: in[6], MaxChunkCount: in[7]})
	if err != nil {
		return out, err
	}
	defer ln.Close()
	type acc struct {
		c   *uacp.Conn
		err error
	}
	ch := make(chan acc, 1)
	go func() {
		c, err := ln.Accept(ctx)
		ch <- acc{c, err}
	}()
	d := &uacp.Dialer{Dialer: &net.Dialer{Timeout: 10 * time.Second},
		ClientACK: &uacp.Acknowledge{ReceiveBufSize: in[0], SendBufSize: in[1], MaxMessageSize: in[2], MaxChunkCount: in[3]}}
	cc, err := d.Dial(ctx, "opc.tcp://"+ln.Addr().String())
	if err != nil {
		ln.Close()
		<-ch
		return out, fmt.Errorf("client handshake: %v", err)
	}
	defer cc.Close()
	var a acc
	select {
	case a = <-ch:
	case <-time.After(20 * time.Second):
		return out, fmt.Errorf("server handshake: no result")
	}
	if a.err != nil {
		return out, fmt.Errorf("server handshake: %v", a.err)
	}
	defer a.c.Close()
	return [8]uint32{cc.ReceiveBufSize(), cc.SendBufSize(), cc.MaxMessageSize(), cc.MaxChunkCount(),
		a.c.ReceiveBufSize(), a.c.SendBufSize(), a.c.MaxMessageSize(), a.c.MaxChunkCount()}, nil
}

// an inferred expression
type hsExpr struct {
	kind string // "var" "ifzero" "min"
	i, j int
	k    uint32
}

func (e hsExpr) eval(in [8]uint32) uint32 {
	switch e.kind {
	case "var":
		return in[e.i]
	case "ifzero":
		if in[e.i] == 0 {
			return e.k
		}
		return in[e.i]
	default:
		return min(in[e.i], in[e.j])
	}
}

func (e hsExpr) lean() string {
	switch e.kind {
	case "var":
		return hsNames[e.i]
	case "ifzero":
		return fmt.Sprintf("if %s = 0 then %d else %s", hsNames[e.i], e.k, hsNames[e.i])
	default:
		return fmt.Sprintf("min %s %s", hsNames[e.i], hsNames[e.j])
	}
}

func genHandshake(repo string) (string, error) {
	// deterministic table: distinct sentinels first, then zeros, equal values, boundary and pseudo-random rows
	rows := [][8]uint32{
		{10007, 10009, 10037, 10039, 20011, 20021, 20023, 20029},
		{30011, 30013, 30029, 30047, 9001, 9007, 9011, 9013},
		{10007, 10009, 0, 0, 20011, 20021, 20023, 20029},
		{10007, 10009, 10037, 10039, 20011, 20021, 0, 20029},
		{10007, 10009, 10037, 10039, 20011, 20021, 20023, 0},
		{10007, 10009, 0, 0, 20011, 20021, 0, 0},
		{65535, 65535, 0, 0, 65535, 65535, 2097152, 512},
		{65535, 65535, 0, 0, 8192, 65535, 2097152, 512},
		{8192, 65535, 0, 0, 65535, 65535, 2097152, 512},
		{8192, 8192, 1, 1, 8192, 8192, 1, 1},
		{1048576, 8192, 4294967295, 4294967295, 8192, 1048576, 4294967295, 4294967295},
	}
	s := uint64(0x9E3779B97F4A7C15)
	next := func() uint32 {
		s ^= s << 13
		s ^= s >> 7
		s ^= s << 17
		return uint32(s >> 16)
	}
	bufs := []uint32{8192, 8193, 16384, 65535, 65536, 1 << 20}
	lims := []uint32{0, 1, 2, 5, 512, 30000, 100000, 2097152}
	for i := 0; i < 24; i++ {
		rows = append(rows, [8]uint32{bufs[next()%6], bufs[next()%6], lims[next()%8], lims[next()%8], bufs[next()%6], bufs[next()%6], lims[next()%8], lims[next()%8]})
	}
	var obs []hsRow
	for _, in := range rows {
		var out [8]uint32
		var err error
		for attempt := 0; attempt < 3; attempt++ {
			if out, err = hsRun(in); err == nil {
				break
			}
		}
		if err != nil {
			return "", fmt.Errorf("handshake %v: %v", in, err)
		}
		obs = append(obs, hsRow{in, out})
	}
	// inference, output by output
	var exprs [8]hsExpr
	for o := 0; o < 8; o++ {
		var cands []hsExpr
		for i := 0; i < 8; i++ {
			cands = append(cands, hsExpr{kind: "var", i: i})
		}
		for i := 0; i < 8; i++ {
			// the default used for zero: read it off a row where the source is zero
			for _, r := range obs {
				if r.in[i] == 0 && r.out[o] != 0 {
					cands = append(cands, hsExpr{kind: "ifzero", i: i, k: r.out[o]})
					break
				}
			}
		}
		for i := 0; i < 8; i++ {
			for j := i + 1; j < 8; j++ {
				cands = append(cands, hsExpr{kind: "min", i: i, j: j})
			}
		}
		found := false
		for _, c := range cands {
			ok := true
			for _, r := range obs {
				if c.eval(r.in) != r.out[o] {
					ok = false
					break
				}
			}
			if ok {
				exprs[o], found = c, true
				break
			}
		}
		if !found {
			return "", fmt.Errorf("%s is not a field copy / default-for-zero / minimum of the Hello and Acknowledge fields any more (first row: in=%v out=%v): the negotiation model of C06 has to be revisited", hsOut[o], obs[0].in, obs[0].out)
		}
	}
	var sb strings.Builder
	sb.WriteString("set_option linter.unusedVariables false\nnamespace Opcua.Gen\n\n")
	sb.WriteString("/-! The limits each `uacp.Conn` holds after the HEL/ACK exchange, as functions of the client's\n    Hello (`h…`) and the server's Acknowledge (`a…`) configuration: inferred from, and checked\n    against, real handshakes over loopback (`handshakeRows`). -/\n\n")
	args := "(hRcv hSnd hMsg hChunks aRcv aSnd aMsg aChunks : Nat)"
	for o := 0; o < 8; o++ {
		fmt.Fprintf(&sb, "def %s %s : Nat :=\n  %s\n\n", hsOut[o], args, exprs[o].lean())
	}
	sb.WriteString("/-- observed: hello(4) ack(4) → client Conn(4) server Conn(4) -/\ndef handshakeRows : List (List Nat) := [\n")
	for k, r := range obs {
		var xs []string
		for _, v := range r.in {
			xs = append(xs, fmt.Sprint(v))
		}
		for _, v := range r.out {
			xs = append(xs, fmt.Sprint(v))
		}
		sep := ","
		if k == len(obs)-1 {
			sep = ""
		}
		fmt.Fprintf(&sb, "  [%s]%s\n", strings.Join(xs, ", "), sep)
	}
	sb.WriteString("]\n\nend Opcua.Gen\n")
	return sb.String(), nil
}
