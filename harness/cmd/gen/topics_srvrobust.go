package main

// Topic "srvrobust" (C29): (1) the subtype lists `getSubRefs` computes for
// every ReferenceType of the server's namespace 0, obtained by evaluating the
// real function on a freshly constructed server (the deletion loop of
// `suitableRefType` is modelled in Lean over these very lists); (2) the two
// source facts behind the "one client that does not read blocks everybody"
// hang: `handleService` is called inline by the single dispatcher loop
// `monitorConnections` (not under `go`), and the response path
// `writeMessageChunks` sets no write deadline; (3) whether any function of
// package server recovers from panics.

import (
	"fmt"
	"go/ast"
	"go/parser"
	"go/token"
	"go/types"
	"path/filepath"
	"sort"
	"strings"

	"github.com/gopcua/opcua/server"
)

func init() { register("srvrobust", "SrvRobust.lean", genSrvRobust) }

func srvrobFindFunc(fset *token.FileSet, dir, name string) (*ast.FuncDecl, error) {
	files, err := srvsecGoFiles(dir)
	if err != nil {
		return nil, err
	}
	for _, fn := range files {
		f, err := parser.ParseFile(fset, fn, nil, 0)
		if err != nil {
			return nil, err
		}
		for _, d := range f.Decls {
			if fd, ok := d.(*ast.FuncDecl); ok && fd.Name.Name == name && fd.Body != nil {
				return fd, nil
			}
		}
	}
	return nil, fmt.Errorf("function %s not found in %s", name, dir)
}

func genSrvRobust(repo string) (string, error) {
	fset := token.NewFileSet()

	// (2a) monitorConnections: how is handleService called?
	mc, err := srvrobFindFunc(fset, filepath.Join(repo, "server"), "monitorConnections")
	if err != nil {
		return "", err
	}
	inline, underGo := 0, 0
	ast.Inspect(mc.Body, func(n ast.Node) bool {
		switch x := n.(type) {
		case *ast.GoStmt:
			if s, ok := x.Call.Fun.(*ast.SelectorExpr); ok && s.Sel.Name == "handleService" {
				underGo++
			}
			return false
		case *ast.CallExpr:
			if s, ok := x.Fun.(*ast.SelectorExpr); ok && s.Sel.Name == "handleService" {
				inline++
			}
		}
		return true
	})
	if inline+underGo == 0 {
		return "", fmt.Errorf("monitorConnections does not call handleService")
	}
	// (2b) writeMessageChunks: any write deadline?
	wm, err := srvrobFindFunc(fset, filepath.Join(repo, "uasc"), "writeMessageChunks")
	if err != nil {
		return "", err
	}
	deadline := false
	ast.Inspect(wm.Body, func(n ast.Node) bool {
		if c, ok := n.(*ast.CallExpr); ok {
			if s, ok := c.Fun.(*ast.SelectorExpr); ok && (s.Sel.Name == "SetWriteDeadline" || s.Sel.Name == "SetDeadline") {
				deadline = true
			}
		}
		return true
	})
	// (2c) suitableRefType: is there still a loop around slices.Delete?
	sr, err := srvrobFindFunc(fset, filepath.Join(repo, "server"), "suitableRefType")
	if err != nil {
		return "", err
	}
	deleteLoop := false
	ast.Inspect(sr.Body, func(n ast.Node) bool {
		if f, ok := n.(*ast.ForStmt); ok {
			ast.Inspect(f.Body, func(m ast.Node) bool {
				if c, ok := m.(*ast.CallExpr); ok {
					if s, ok := c.Fun.(*ast.SelectorExpr); ok && s.Sel.Name == "Delete" {
						deleteLoop = true
					}
				}
				return true
			})
		}
		return true
	})
	// (2d) channelInstance.verifyAndDecrypt: is the chunk length compared with the signature length
	// before `b[len(b)-RemoteSignatureLength():]` is evaluated?
	vd, err := srvrobFindFunc(fset, filepath.Join(repo, "uasc"), "verifyAndDecrypt")
	if err != nil {
		return "", err
	}
	// the method of channelInstance is the one that slices; SecureChannel.verifyAndDecrypt only dispatches
	if vd.Recv == nil || !strings.Contains(types.ExprString(vd.Recv.List[0].Type), "channelInstance") {
		files, _ := srvsecGoFiles(filepath.Join(repo, "uasc"))
		for _, fn := range files {
			f, err := parser.ParseFile(fset, fn, nil, 0)
			if err != nil {
				return "", err
			}
			for _, d := range f.Decls {
				if fd, ok := d.(*ast.FuncDecl); ok && fd.Name.Name == "verifyAndDecrypt" && fd.Recv != nil && strings.Contains(types.ExprString(fd.Recv.List[0].Type), "channelInstance") {
					vd = fd
				}
			}
		}
	}
	lengthChecked := false
	ast.Inspect(vd.Body, func(n ast.Node) bool {
		if ifs, ok := n.(*ast.IfStmt); ok {
			if b, ok := ifs.Cond.(*ast.BinaryExpr); ok && b.Op == token.LSS {
				txt := types.ExprString(b)
				if strings.Contains(txt, "len(") && strings.Contains(txt, "RemoteSignatureLength") {
					lengthChecked = true
				}
			}
		}
		return true
	})
	// (2e) the notification path: ChangeNotification sends on NotifyChannel under its mutex, outside any
	// select; SetAttribute calls ChangeNotification inline; capacity of NotifyChannel in NewSubscription
	notifyUnderLock, notifyInline, notifyCap := false, false, -1
	{
		files, _ := srvsecGoFiles(filepath.Join(repo, "server"))
		for _, fn := range files {
			f, err := parser.ParseFile(fset, fn, nil, 0)
			if err != nil {
				return "", err
			}
			for _, d := range f.Decls {
				fd, ok := d.(*ast.FuncDecl)
				if !ok || fd.Body == nil {
					continue
				}
				switch {
				case fd.Name.Name == "ChangeNotification" && fd.Recv != nil && strings.Contains(types.ExprString(fd.Recv.List[0].Type), "MonitoredItemService"):
					locks, plainSend := false, false
					ast.Inspect(fd.Body, func(n ast.Node) bool {
						switch x := n.(type) {
						case *ast.SelectStmt:
							return false // a send inside a select is not counted
						case *ast.DeferStmt:
							if strings.HasSuffix(types.ExprString(x.Call.Fun), "Mu.Unlock") {
								locks = true
							}
						case *ast.SendStmt:
							if strings.HasSuffix(types.ExprString(x.Chan), "NotifyChannel") {
								plainSend = true
							}
						}
						return true
					})
					notifyUnderLock = locks && plainSend
				case fd.Name.Name == "SetAttribute" && fd.Recv != nil && strings.Contains(types.ExprString(fd.Recv.List[0].Type), "NodeNameSpace"):
					ast.Inspect(fd.Body, func(n ast.Node) bool {
						switch x := n.(type) {
						case *ast.GoStmt:
							return false
						case *ast.CallExpr:
							if strings.HasSuffix(types.ExprString(x.Fun), "ChangeNotification") {
								notifyInline = true
							}
						}
						return true
					})
				case fd.Name.Name == "NewSubscription":
					ast.Inspect(fd.Body, func(n ast.Node) bool {
						kv, ok := n.(*ast.KeyValueExpr)
						if !ok || types.ExprString(kv.Key) != "NotifyChannel" {
							return true
						}
						if c, ok := kv.Value.(*ast.CallExpr); ok && len(c.Args) == 2 {
							fmt.Sscan(types.ExprString(c.Args[1]), &notifyCap)
						}
						return true
					})
				}
			}
		}
		if notifyCap < 0 {
			return "", fmt.Errorf("capacity of Subscription.NotifyChannel not found")
		}
	}
	// (2f) raw frames: uacp.Conn.Receive reads into a buffer of the full receive-buffer size (so that
	// readChunk's `b[:hdrlen]` stays within capacity for an 8..11 byte frame), or readChunk tests the length
	fullCap, checksLen := false, false
	{
		rc, err := srvrobFindFunc(fset, filepath.Join(repo, "uacp"), "Receive")
		if err != nil {
			return "", err
		}
		ast.Inspect(rc.Body, func(n ast.Node) bool {
			if c, ok := n.(*ast.CallExpr); ok {
				if id, ok := c.Fun.(*ast.Ident); ok && id.Name == "make" && len(c.Args) >= 2 && strings.Contains(types.ExprString(c.Args[1]), "ReceiveBufSize") {
					fullCap = true
				}
			}
			return true
		})
		rd, err := srvrobFindFunc(fset, filepath.Join(repo, "uasc"), "readChunk")
		if err != nil {
			return "", err
		}
		ast.Inspect(rd.Body, func(n ast.Node) bool {
			if ifs, ok := n.(*ast.IfStmt); ok {
				ast.Inspect(ifs.Cond, func(m ast.Node) bool {
					if b, ok := m.(*ast.BinaryExpr); ok && b.Op == token.LSS && strings.Contains(types.ExprString(b), "len(b)") {
						checksLen = true
					}
					return true
				})
			}
			return true
		})
	}
	// (3) recover() anywhere in package server / uasc (non-test, non-hook files)
	var recoverers []string
	for _, pkg := range []string{"server", "uasc"} {
		files, err := srvsecGoFiles(filepath.Join(repo, pkg))
		if err != nil {
			return "", err
		}
		for _, fn := range files {
			f, err := parser.ParseFile(fset, fn, nil, 0)
			if err != nil {
				return "", err
			}
			for _, d := range f.Decls {
				fd, ok := d.(*ast.FuncDecl)
				if !ok || fd.Body == nil {
					continue
				}
				ast.Inspect(fd.Body, func(n ast.Node) bool {
					if c, ok := n.(*ast.CallExpr); ok {
						if id, ok := c.Fun.(*ast.Ident); ok && id.Name == "recover" {
							recoverers = append(recoverers, pkg+"/"+filepath.Base(fn)+":"+fd.Name.Name)
						}
					}
					return true
				})
			}
		}
	}
	sort.Strings(recoverers)

	// (1) the real subtype lists
	s := server.New(server.EndPoint("localhost", 0))
	tab := server.VerifSrvA{S: s}.RefTypeSubRefs()
	if len(tab) == 0 {
		return "", fmt.Errorf("no ReferenceType nodes found in namespace 0")
	}
	var ids []int
	for k := range tab {
		ids = append(ids, int(k))
	}
	sort.Ints(ids)

	var sb strings.Builder
	sb.WriteString("namespace Opcua.Gen.SrvRobust\n\n")
	sb.WriteString("/-- `s.handleService(…)` in `monitorConnections` is a plain call (true) / a `go` statement (false) -/\n")
	fmt.Fprintf(&sb, "def dispatcherInline : Bool := %v\n\n", inline > 0 && underGo == 0)
	sb.WriteString("/-- `writeMessageChunks` (the response path) sets a write deadline -/\n")
	fmt.Fprintf(&sb, "def responseWriteDeadline : Bool := %v\n\n", deadline)
	sb.WriteString("/-- `suitableRefType` contains a `for` loop around `slices.Delete` (the loop whose index is never recomputed) -/\n")
	fmt.Fprintf(&sb, "def refTypeDeleteLoop : Bool := %v\n\n", deleteLoop)
	sb.WriteString("/-- `channelInstance.verifyAndDecrypt` compares the chunk length with the signature length before slicing -/\n")
	fmt.Fprintf(&sb, "def signedChunkLengthChecked : Bool := %v\n\n", lengthChecked)
	sb.WriteString("/-- MonitoredItemService.ChangeNotification sends on NotifyChannel with a plain send while its mutex is held -/\n")
	fmt.Fprintf(&sb, "def notifySendUnderLock : Bool := %v\n\n", notifyUnderLock)
	sb.WriteString("/-- NodeNameSpace.SetAttribute calls ChangeNotification as a plain call (on the dispatcher goroutine) -/\n")
	fmt.Fprintf(&sb, "def setAttributeNotifiesInline : Bool := %v\n\n", notifyInline)
	sb.WriteString("/-- buffer size of Subscription.NotifyChannel -/\n")
	fmt.Fprintf(&sb, "def notifyChanCap : Nat := %d\n\n", notifyCap)
	sb.WriteString("/-- uacp.Conn.Receive reads every message into a buffer of the whole receive-buffer size -/\n")
	fmt.Fprintf(&sb, "def receiveBufFullCapacity : Bool := %v\n\n", fullCap)
	sb.WriteString("/-- uasc readChunk compares len(b) with a minimum before slicing the header off -/\n")
	fmt.Fprintf(&sb, "def readChunkChecksHeaderLen : Bool := %v\n\n", checksLen)
	sb.WriteString("/-- functions of packages server and uasc that call `recover()` -/\n")
	fmt.Fprintf(&sb, "def recoverers : List String := %s\n\n", srvsecLeanList(recoverers))
	sb.WriteString("/-- (reference type id, `getSubRefs(srv, id)` as numeric ids, in order) for every ReferenceType node of ns 0 -/\n")
	sb.WriteString("def subRefs : List (Nat × List Nat) := [\n")
	for i, k := range ids {
		l := tab[uint32(k)]
		strs := make([]string, len(l))
		for j, v := range l {
			strs[j] = fmt.Sprint(v)
		}
		sep := ","
		if i == len(ids)-1 {
			sep = ""
		}
		fmt.Fprintf(&sb, "  (%d, [%s])%s\n", k, strings.Join(strs, ", "), sep)
	}
	sb.WriteString("]\n\nend Opcua.Gen.SrvRobust\n")
	return sb.String(), nil
}
