package main

// Generator topic of C21 (client calls never panic on well-formed responses):
// every index expression, slice expression and UNCHECKED type assertion in
// the anchored client files, per function, as a Lean list.  Comma-ok
// assertions, type switches and composite-literal / type index expressions
// cannot panic and are not listed; if one of them is turned into the
// unchecked form it appears here.  Props/C21.lean proves the list equal to the
// audited list of Model/ClientResp.lean, so a new site breaks the theorem
// until it is audited (and, if it can panic, modelled).

import (
	"bytes"
	"fmt"
	"go/ast"
	"go/parser"
	"go/printer"
	"go/token"
	"path/filepath"
	"sort"
	"strings"
)

func init() { register("clientsites", "ClientSites.lean", genClientSites) }

var clientSiteFiles = []string{"client.go", "client_sub.go", "subscription.go", "node.go", "monitor/subscription.go"}

type clientSite struct{ file, fn, kind, expr string }

func csExpr(fset *token.FileSet, e ast.Node) string {
	var b bytes.Buffer
	printer.Fprint(&b, fset, e)
	return strings.Join(strings.Fields(b.String()), " ")
}

// csBase names the indexed / asserted operand robustly against renamings of
// locals that are not the operand itself: the last identifier of a selector
// chain (`res.Results` → "Results"), the callee of a call (`v.Value()` →
// "Value()"), the operand of a nested index (`a.b[i]` → "b[_]").
func csBase(fset *token.FileSet, e ast.Expr) string {
	switch x := e.(type) {
	case *ast.Ident:
		return x.Name
	case *ast.SelectorExpr:
		return x.Sel.Name
	case *ast.CallExpr:
		return csBase(fset, x.Fun) + "()"
	case *ast.IndexExpr:
		return csBase(fset, x.X) + "[_]"
	case *ast.ParenExpr:
		return csBase(fset, x.X)
	case *ast.StarExpr:
		return csBase(fset, x.X)
	}
	return csExpr(fset, e)
}

func csFuncName(fd *ast.FuncDecl) string {
	if fd.Recv != nil && len(fd.Recv.List) == 1 {
		t := fd.Recv.List[0].Type
		if s, ok := t.(*ast.StarExpr); ok {
			t = s.X
		}
		if id, ok := t.(*ast.Ident); ok {
			return id.Name + "." + fd.Name.Name
		}
	}
	return fd.Name.Name
}

func clientSitesOf(repo string) ([]clientSite, error) {
	var out []clientSite
	for _, rel := range clientSiteFiles {
		fset := token.NewFileSet()
		f, err := parser.ParseFile(fset, filepath.Join(repo, rel), nil, 0)
		if err != nil {
			return nil, err
		}
		for _, d := range f.Decls {
			fd, ok := d.(*ast.FuncDecl)
			if !ok || fd.Body == nil {
				continue
			}
			fn := csFuncName(fd)
			// assertions that are checked: `v, ok := x.(T)` / `v, ok = x.(T)` / `if _, ok := …` and type switches
			checked := map[*ast.TypeAssertExpr]bool{}
			ast.Inspect(fd.Body, func(n ast.Node) bool {
				switch x := n.(type) {
				case *ast.AssignStmt:
					if len(x.Lhs) == 2 && len(x.Rhs) == 1 {
						if ta, ok := x.Rhs[0].(*ast.TypeAssertExpr); ok {
							checked[ta] = true
						}
					}
				case *ast.ValueSpec:
					if len(x.Names) == 2 && len(x.Values) == 1 {
						if ta, ok := x.Values[0].(*ast.TypeAssertExpr); ok {
							checked[ta] = true
						}
					}
				}
				return true
			})
			ast.Inspect(fd.Body, func(n ast.Node) bool {
				switch x := n.(type) {
				case *ast.IndexExpr:
					// generic instantiation / map or slice types in type position do not occur in these files;
					// an index on a map cannot panic but is listed (audited as `map`)
					out = append(out, clientSite{rel, fn, "index", csBase(fset, x.X) + "[_]"})
				case *ast.SliceExpr:
					out = append(out, clientSite{rel, fn, "slice", csBase(fset, x.X) + "[_:_]"})
				case *ast.TypeAssertExpr:
					if x.Type != nil && !checked[x] { // Type == nil: type switch
						out = append(out, clientSite{rel, fn, "assert", csBase(fset, x.X) + ".(" + csExpr(fset, x.Type) + ")"})
					}
				}
				return true
			})
		}
	}
	sort.SliceStable(out, func(i, j int) bool {
		a, b := out[i], out[j]
		if a.file != b.file {
			return a.file < b.file
		}
		if a.fn != b.fn {
			return a.fn < b.fn
		}
		if a.kind != b.kind {
			return a.kind < b.kind
		}
		return a.expr < b.expr
	})
	return out, nil
}

func genClientSites(repo string) (string, error) {
	sites, err := clientSitesOf(repo)
	if err != nil {
		return "", err
	}
	var sb strings.Builder
	sb.WriteString("import OpcuaModel.Model.ClientSite\nnamespace Opcua.Gen\nopen Opcua.ClientResp\n\n")
	fmt.Fprintf(&sb, "/-- index / slice / unchecked type-assertion sites of %s (go/ast), sorted -/\n", strings.Join(clientSiteFiles, ", "))
	sb.WriteString("def clientSites : List Site := [\n")
	for i, s := range sites {
		sep := ","
		if i == len(sites)-1 {
			sep = ""
		}
		fmt.Fprintf(&sb, "  ⟨%q, %q, %q, %q⟩%s\n", s.file, s.fn, s.kind, s.expr, sep)
	}
	sb.WriteString("]\n\nend Opcua.Gen\n")
	return sb.String(), nil
}
