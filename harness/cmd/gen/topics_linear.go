package main

import (
	"fmt"
	"go/ast"
	"go/parser"
	"go/token"
	"os"
	"path/filepath"
	"sort"
	"strings"
)

func init() {
	register("dispatch", "Dispatch.lean", genDispatch)
}

// genDispatch extracts, with go/ast, the structural facts the linearizability
// argument of C34 rests on: how many places call handleService and whether any
// of them runs concurrently, how the dispatcher goroutine is started, and
// whether anything reachable from the Read / Write handlers starts a goroutine
// or takes a lock around the node value.
func genDispatch(repo string) (string, error) {
	dir := filepath.Join(repo, "server")
	ents, err := os.ReadDir(dir)
	if err != nil {
		return "", err
	}
	fset := token.NewFileSet()
	type fn struct {
		name, recv string
		decl       *ast.FuncDecl
	}
	var fns []fn
	for _, e := range ents {
		n := e.Name()
		if !strings.HasSuffix(n, ".go") || strings.HasSuffix(n, "_test.go") || strings.HasPrefix(n, "verif_") {
			continue
		}
		f, err := parser.ParseFile(fset, filepath.Join(dir, n), nil, 0)
		if err != nil {
			return "", err
		}
		for _, d := range f.Decls {
			fd, ok := d.(*ast.FuncDecl)
			if !ok || fd.Body == nil {
				continue
			}
			recv := ""
			if fd.Recv != nil && len(fd.Recv.List) == 1 {
				t := fd.Recv.List[0].Type
				if s, ok := t.(*ast.StarExpr); ok {
					t = s.X
				}
				if id, ok := t.(*ast.Ident); ok {
					recv = id.Name
				}
			}
			fns = append(fns, fn{fd.Name.Name, recv, fd})
		}
	}
	calleeName := func(c *ast.CallExpr) string {
		switch f := c.Fun.(type) {
		case *ast.Ident:
			return f.Name
		case *ast.SelectorExpr:
			return f.Sel.Name
		case *ast.IndexExpr: // generic instantiation f[T](…)
			if id, ok := f.X.(*ast.Ident); ok {
				return id.Name
			}
		}
		return ""
	}
	// call sites of a function name: total, concurrent (under go / defer / inside a func literal), loop depth, enclosing function
	type site struct {
		in        string
		conc      bool
		goStmt    bool
		loopDepth int
	}
	sites := func(target string) []site {
		var out []site
		for _, f := range fns {
			var walk func(n ast.Node, conc bool, loops int)
			walk = func(n ast.Node, conc bool, loops int) {
				ast.Inspect(n, func(x ast.Node) bool {
					switch v := x.(type) {
					case *ast.GoStmt:
						if calleeName(v.Call) == target {
							out = append(out, site{f.name, true, true, loops})
						}
						for _, a := range v.Call.Args {
							walk(a, true, loops)
						}
						walk(v.Call.Fun, true, loops)
						return false
					case *ast.DeferStmt:
						walk(v.Call, true, loops)
						return false
					case *ast.FuncLit:
						walk(v.Body, true, 0)
						return false
					case *ast.ForStmt:
						if v.Init != nil {
							walk(v.Init, conc, loops)
						}
						if v.Cond != nil {
							walk(v.Cond, conc, loops+1)
						}
						if v.Post != nil {
							walk(v.Post, conc, loops+1)
						}
						walk(v.Body, conc, loops+1)
						return false
					case *ast.RangeStmt:
						walk(v.X, conc, loops)
						walk(v.Body, conc, loops+1)
						return false
					case *ast.CallExpr:
						if calleeName(v) == target {
							out = append(out, site{f.name, conc, false, loops})
						}
					}
					return true
				})
			}
			walk(f.decl.Body, false, 0)
		}
		return out
	}
	hs := sites("handleService")
	if len(hs) == 0 {
		return "", fmt.Errorf("no call of handleService found in %s", dir)
	}
	hsConc, hsLoops := 0, 0
	callers := map[string]bool{}
	for _, s := range hs {
		if s.conc {
			hsConc++
		}
		hsLoops = s.loopDepth
		callers[s.in] = true
	}
	var callerNames []string
	for c := range callers {
		callerNames = append(callerNames, c)
	}
	sort.Strings(callerNames)
	dispatcher := callerNames[0]
	ds := sites(dispatcher)
	dsGo, dsGoLoop, dsOther := 0, 0, 0
	starters := map[string]bool{}
	for _, s := range ds {
		if s.goStmt {
			dsGo++
			if s.loopDepth > 0 {
				dsGoLoop++
			}
			starters[s.in] = true
		} else {
			dsOther++
		}
	}
	var starterNames []string
	for c := range starters {
		starterNames = append(starterNames, c)
	}
	sort.Strings(starterNames)

	// functions reachable by name from AttributeService.Read / Write
	byName := map[string][]fn{}
	for _, f := range fns {
		byName[f.name] = append(byName[f.name], f)
	}
	seen := map[string]bool{}
	var order []string
	var queue []fn
	for _, f := range fns {
		if f.recv == "AttributeService" && (f.name == "Read" || f.name == "Write") {
			queue = append(queue, f)
			seen[f.recv+"."+f.name] = true
		}
	}
	if len(queue) != 2 {
		return "", fmt.Errorf("AttributeService.Read/Write not found")
	}
	goStmts, lockOps := 0, 0
	var lockIn []string
	for len(queue) > 0 {
		f := queue[0]
		queue = queue[1:]
		order = append(order, f.recv+"."+f.name)
		ast.Inspect(f.decl.Body, func(x ast.Node) bool {
			switch v := x.(type) {
			case *ast.GoStmt:
				goStmts++
			case *ast.CallExpr:
				n := calleeName(v)
				if n == "Lock" || n == "RLock" {
					if f.recv == "Node" {
						lockOps++
						lockIn = append(lockIn, f.recv+"."+f.name)
					}
				}
				for _, g := range byName[n] {
					k := g.recv + "." + g.name
					if !seen[k] {
						seen[k] = true
						queue = append(queue, g)
					}
				}
			}
			return true
		})
	}
	sort.Strings(order)
	q := func(l []string) string {
		var s []string
		for _, x := range l {
			s = append(s, fmt.Sprintf("%q", x))
		}
		return "[" + strings.Join(s, ", ") + "]"
	}
	var sb strings.Builder
	sb.WriteString("namespace Opcua.Gen\n\n")
	fmt.Fprintf(&sb, "/-- call expressions of `handleService` in package server -/\ndef handleServiceCallSites : Nat := %d\n\n", len(hs))
	fmt.Fprintf(&sb, "/-- … of which under `go`, `defer` or inside a function literal -/\ndef handleServiceConcurrentSites : Nat := %d\n\n", hsConc)
	fmt.Fprintf(&sb, "/-- the functions that call it -/\ndef handleServiceCallers : List String := %s\n\n", q(callerNames))
	fmt.Fprintf(&sb, "/-- number of `for` statements around the (last) call site -/\ndef handleServiceLoopDepth : Nat := %d\n\n", hsLoops)
	fmt.Fprintf(&sb, "/-- `go <dispatcher>(…)` statements -/\ndef dispatcherGoSites : Nat := %d\n\n", dsGo)
	fmt.Fprintf(&sb, "/-- … of which inside a loop -/\ndef dispatcherGoSitesInLoop : Nat := %d\n\n", dsGoLoop)
	fmt.Fprintf(&sb, "/-- other calls of the dispatcher function -/\ndef dispatcherOtherCalls : Nat := %d\n\n", dsOther)
	fmt.Fprintf(&sb, "/-- the functions that start it -/\ndef dispatcherStarters : List String := %s\n\n", q(starterNames))
	fmt.Fprintf(&sb, "/-- functions reachable (by name, over-approximated) from AttributeService.Read / Write -/\ndef valuePathFuncs : List String := %s\n\n", q(order))
	fmt.Fprintf(&sb, "/-- `go` statements in those functions -/\ndef valuePathGoStmts : Nat := %d\n\n", goStmts)
	fmt.Fprintf(&sb, "/-- Lock / RLock calls in methods of Node on that path (the node value is not protected by a mutex:\n    mutual exclusion comes from the single dispatcher only) -/\ndef nodeMethodLockOps : Nat := %d\n\n", lockOps)
	_ = lockIn
	sb.WriteString("end Opcua.Gen\n")
	return sb.String(), nil
}
