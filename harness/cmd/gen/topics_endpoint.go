package main

// Generator topic of C24 (endpoint selection): the policy short-name table,
// the URI prefix and the "don't care" mode value are evaluated from package
// ua, so the normalisation lemmas of Props/C24.lean are re-proved against the
// table the code really uses.

import (
	"fmt"
	"sort"
	"strings"

	"github.com/gopcua/opcua/ua"
)

func init() {
	register("secpolicy", "SecPolicy.lean", genSecPolicy)
}

// leanByteList renders a Go string as a Lean `List UInt8` literal.
func leanByteList(s string) string {
	if s == "" {
		return "[]"
	}
	parts := make([]string, len(s))
	for i := 0; i < len(s); i++ {
		parts[i] = fmt.Sprint(s[i])
	}
	return "[" + strings.Join(parts, ", ") + "]"
}

func genSecPolicy(repo string) (string, error) {
	var sb strings.Builder
	sb.WriteString("import OpcuaModel.Base.Bytes\nnamespace Opcua.Gen\nopen Opcua\n\n")
	fmt.Fprintf(&sb, "/-- ua.SecurityPolicyURIPrefix = %q -/\ndef secPolicyPrefix : Bytes := %s\n\n", ua.SecurityPolicyURIPrefix, leanByteList(ua.SecurityPolicyURIPrefix))
	keys := make([]string, 0, len(ua.SecurityPolicyURIs))
	for k := range ua.SecurityPolicyURIs {
		keys = append(keys, k)
	}
	sort.Strings(keys)
	sb.WriteString("/-- ua.SecurityPolicyURIs (a Go map: keys are distinct), sorted by key -/\ndef secPolicyTable : List (Bytes × Bytes) := [\n")
	for i, k := range keys {
		sep := ","
		if i == len(keys)-1 {
			sep = ""
		}
		fmt.Fprintf(&sb, "  -- %q ↦ %q\n  (%s,\n   %s)%s\n", k, ua.SecurityPolicyURIs[k], leanByteList(k), leanByteList(ua.SecurityPolicyURIs[k]), sep)
	}
	sb.WriteString("]\n\n")
	fmt.Fprintf(&sb, "/-- ua.MessageSecurityModeInvalid, the \"don't care\" mode of SelectEndpoint -/\ndef modeInvalid : Nat := %d\n", uint32(ua.MessageSecurityModeInvalid))
	fmt.Fprintf(&sb, "def modeNone : Nat := %d\ndef modeSign : Nat := %d\ndef modeSignAndEncrypt : Nat := %d\n\n",
		uint32(ua.MessageSecurityModeNone), uint32(ua.MessageSecurityModeSign), uint32(ua.MessageSecurityModeSignAndEncrypt))
	sb.WriteString("end Opcua.Gen\n")
	return sb.String(), nil
}
