package main

// Generator topic of C23 (client options affect only their client):
//
//   - alias facts by go/ast: in the default constructors reached from
//     newConfig (config.go), which composite-literal fields are initialised
//     with a package-level variable holding a reference (pointer, slice, map)
//     — these objects are shared by every client; cross-checked by evaluating
//     newConfig twice and comparing the addresses of everything reachable;
//   - the write footprint of every Option constructor of config.go by go/ast
//     (selector paths assigned through the *Config parameter, followed through
//     local aliases, type switches and helper functions);
//   - the pristine defaults (every scalar leaf of the configuration tree) by
//     evaluating the real constructors.

import (
	"fmt"
	"sort"
	"strconv"
	"strings"

	"github.com/gopcua/opcua"

	"verifharness/internal/h"
)

func init() {
	register("cfgalias", "ConfigFacts.lean", genConfigFacts)
}

// ---------------------------------------------------------------- output

func leanPath(p string) string {
	parts := strings.Split(p, ".")
	q := make([]string, len(parts))
	for i, s := range parts {
		q[i] = strconv.Quote(s)
	}
	return "[" + strings.Join(q, ", ") + "]"
}

func genConfigFacts(repo string) (string, error) {
	shared, err := h.ConfigAliasFacts(repo)
	if err != nil {
		return "", err
	}

	// the objects two evaluations of newConfig() share (addresses of everything reachable)
	a, b := opcua.VerifNewConfig(), opcua.VerifNewConfig()
	shared, err = h.MergeAliasFacts(shared, h.DynShared(opcua.VerifConfigPointers(a), opcua.VerifConfigPointers(b)))
	if err != nil {
		return "", err
	}

	fps, err := h.ConfigFootprints(repo)
	if err != nil {
		return "", err
	}
	leaves := opcua.VerifDumpConfig(a)

	var sb strings.Builder
	sb.WriteString("namespace Opcua.Gen.Config\n\n")
	sb.WriteString("/-- objects of the default configuration that are NOT allocated per client: (path from the Config value,\n    package-level variable).  Evaluation of newConfig() twice (address comparison), named by go/ast over the constructors. -/\n")
	sb.WriteString("def shared : List (List String × String) := [")
	for i, s := range shared {
		if i > 0 {
			sb.WriteString(", ")
		}
		fmt.Fprintf(&sb, "(%s, %s)", leanPath(s.Path), strconv.Quote(s.Global))
	}
	sb.WriteString("]\n\n")
	sb.WriteString("/-- every scalar leaf of newConfig() with its pristine value (evaluated) -/\ndef defaults : List (List String × String) := [\n")
	for i, l := range leaves {
		sep := ","
		if i == len(leaves)-1 {
			sep = ""
		}
		fmt.Fprintf(&sb, "  (%s, %s)%s\n", leanPath(l.Path), strconv.Quote(l.Value), sep)
	}
	sb.WriteString("]\n\n")
	sb.WriteString("/-- write footprint of every Option constructor of config.go: (selector path assigned through the\n    *Config parameter, the assigned value is a pointer parameter of the option) -/\n")
	sb.WriteString("def options : List (String × List (List String × Bool)) := [\n")
	var names []string
	for n := range fps {
		names = append(names, n)
	}
	sort.Strings(names)
	for i, n := range names {
		var es []string
		for _, e := range fps[n] {
			es = append(es, fmt.Sprintf("(%s, %v)", leanPath(e.Path), e.ParamRef))
		}
		sep := ","
		if i == len(names)-1 {
			sep = ""
		}
		fmt.Fprintf(&sb, "  (%s, [%s])%s\n", strconv.Quote(n), strings.Join(es, ", "), sep)
	}
	sb.WriteString("]\n\n")
	sb.WriteString("/-- options that assign an object allocated OUTSIDE the closure they return (one object per Option\n    value, shared by every client the value is applied to), with the paths assigned from it.  go/ast. -/\n")
	sb.WriteString("def captured : List (String × List (List String)) := [")
	first := true
	for _, n := range names {
		var ps []string
		for _, e := range fps[n] {
			if e.Captured {
				ps = append(ps, leanPath(e.Path))
			}
		}
		if len(ps) > 0 {
			if !first {
				sb.WriteString(", ")
			}
			first = false
			fmt.Fprintf(&sb, "(%s, [%s])", strconv.Quote(n), strings.Join(ps, ", "))
		}
	}
	sb.WriteString("]\n\nend Opcua.Gen.Config\n")
	return sb.String(), nil
}
