package main

// Generator topics of the "send" properties (C11, C16, C18, C19):
//
//	sendfacts   Gen/SendFacts.lean   lock facts (which mutex is held at every access of the shared
//	                                 fields of the secure channel, propagated over the call graph of
//	                                 package uasc), the call order inside the renewal / send functions,
//	                                 channel capacity of the response channel, timeout leniency
//	renewexpr   Gen/RenewExpr.lean   the delay expression of scheduleRenewal, matched structurally
//
// Both are go/ast based (no type information): the receiver of Lock/Unlock
// is named by the last selector before the call ("handlersMu", "lockMu", …),
// a bare identifier (`instance.Lock()`, `c.Lock()`) is the embedded mutex of a
// channel instance and is named "inst".

import (
	"fmt"
	"go/ast"
	"go/parser"
	"go/token"
	"os"
	"path/filepath"
	"sort"
	"strconv"
	"strings"
)

func init() {
	register("sendfacts", "SendFacts.lean", genSendFacts)
	register("renewexpr", "RenewExpr.lean", genRenewExpr)
}

var sendFields = map[string]bool{"handlers": true, "requestID": true, "activeInstance": true,
	"sequenceNumber": true, "bLock": true, "instances": true}

type sfAccess struct {
	fn, field string
	line      int
	write     bool
	held      []string
}

type sfCall struct {
	caller, callee string
	line           int
	held           []string
	goStmt         bool
}

type sfWalker struct {
	fset     *token.FileSet
	fn       string
	accesses []sfAccess
	calls    []sfCall
	order    map[string][]string // fn -> calls in source order (rendered)
	funcs    map[string]bool
}

func sfLockName(recv ast.Expr) string {
	switch x := recv.(type) {
	case *ast.Ident:
		return "inst"
	case *ast.SelectorExpr:
		return x.Sel.Name
	}
	return "?"
}

func sfRender(e ast.Expr) string {
	switch x := e.(type) {
	case *ast.Ident:
		return x.Name
	case *ast.SelectorExpr:
		return sfRender(x.X) + "." + x.Sel.Name
	case *ast.CallExpr:
		return sfRender(x.Fun) + "()"
	}
	return "?"
}

func sfWith(held []string, n string) []string {
	for _, h := range held {
		if h == n {
			return held
		}
	}
	out := append(append([]string(nil), held...), n)
	sort.Strings(out)
	return out
}

func sfWithout(held []string, n string) []string {
	var out []string
	for _, h := range held {
		if h != n {
			out = append(out, h)
		}
	}
	return out
}

// lockOp classifies X.Lock() / X.Unlock().
func sfLockOp(e ast.Expr) (name string, lock bool, ok bool) {
	c, isCall := e.(*ast.CallExpr)
	if !isCall {
		return
	}
	sel, isSel := c.Fun.(*ast.SelectorExpr)
	if !isSel || len(c.Args) != 0 {
		return
	}
	switch sel.Sel.Name {
	case "Lock":
		return sfLockName(sel.X), true, true
	case "Unlock":
		return sfLockName(sel.X), false, true
	}
	return
}

// scanExpr records field accesses and calls inside an expression (function
// literals are walked as separate functions without any lock).
func (w *sfWalker) scanExpr(e ast.Node, held []string, writes map[ast.Expr]bool, isGo bool) {
	if e == nil {
		return
	}
	ast.Inspect(e, func(n ast.Node) bool {
		switch x := n.(type) {
		case *ast.FuncLit:
			saved := w.fn
			w.fn = saved + "$lit"
			w.block(x.Body.List, nil)
			w.fn = saved
			return false
		case *ast.SelectorExpr:
			if sendFields[x.Sel.Name] {
				w.accesses = append(w.accesses, sfAccess{w.fn, x.Sel.Name, w.fset.Position(x.Pos()).Line, writes[x], held})
			}
		case *ast.CallExpr:
			name := ""
			switch f := x.Fun.(type) {
			case *ast.Ident:
				name = f.Name
			case *ast.SelectorExpr:
				name = f.Sel.Name
			}
			if name == "verifPoint" {
				return false
			}
			if name != "" {
				w.calls = append(w.calls, sfCall{w.fn, name, w.fset.Position(x.Pos()).Line, held, isGo})
				if !strings.Contains(w.fn, "$lit") {
					w.order[w.fn] = append(w.order[w.fn], sfRender(x.Fun))
				}
			}
		}
		return true
	})
}

func sfBaseOfIndex(e ast.Expr) ast.Expr {
	for {
		switch x := e.(type) {
		case *ast.IndexExpr:
			e = x.X
		case *ast.ParenExpr:
			e = x.X
		default:
			return e
		}
	}
}

func (w *sfWalker) block(list []ast.Stmt, held []string) []string {
	for _, s := range list {
		held = w.stmt(s, held)
	}
	return held
}

func (w *sfWalker) stmt(s ast.Stmt, held []string) []string {
	switch x := s.(type) {
	case *ast.ExprStmt:
		if n, lock, ok := sfLockOp(x.X); ok {
			if !strings.Contains(w.fn, "$lit") {
				w.order[w.fn] = append(w.order[w.fn], sfRender(x.X.(*ast.CallExpr).Fun))
			}
			if lock {
				return sfWith(held, n)
			}
			return sfWithout(held, n)
		}
		w.scanExpr(x.X, held, nil, false)
	case *ast.DeferStmt:
		if _, _, ok := sfLockOp(x.Call); ok {
			return held // deferred unlock: held to the end of the function
		}
		w.scanExpr(x.Call, held, nil, false)
	case *ast.GoStmt:
		w.scanExpr(x.Call, nil, nil, true)
	case *ast.AssignStmt:
		writes := map[ast.Expr]bool{}
		for _, l := range x.Lhs {
			writes[sfBaseOfIndex(l)] = true
		}
		for _, l := range x.Lhs {
			w.scanExpr(l, held, writes, false)
		}
		for _, r := range x.Rhs {
			w.scanExpr(r, held, nil, false)
		}
	case *ast.IncDecStmt:
		w.scanExpr(x.X, held, map[ast.Expr]bool{sfBaseOfIndex(x.X): true}, false)
	case *ast.ReturnStmt:
		for _, r := range x.Results {
			w.scanExpr(r, held, nil, false)
		}
	case *ast.BlockStmt:
		w.block(x.List, held)
	case *ast.IfStmt:
		if x.Init != nil {
			held = w.stmt(x.Init, held)
		}
		w.scanExpr(x.Cond, held, nil, false)
		w.block(x.Body.List, held)
		if x.Else != nil {
			w.stmt(x.Else, held)
		}
	case *ast.ForStmt:
		if x.Init != nil {
			held = w.stmt(x.Init, held)
		}
		w.scanExpr(x.Cond, held, nil, false)
		w.block(x.Body.List, held)
	case *ast.RangeStmt:
		w.scanExpr(x.X, held, nil, false)
		w.block(x.Body.List, held)
	case *ast.SwitchStmt:
		if x.Init != nil {
			held = w.stmt(x.Init, held)
		}
		w.scanExpr(x.Tag, held, nil, false)
		for _, c := range x.Body.List {
			cc := c.(*ast.CaseClause)
			for _, e := range cc.List {
				w.scanExpr(e, held, nil, false)
			}
			w.block(cc.Body, held)
		}
	case *ast.TypeSwitchStmt:
		for _, c := range x.Body.List {
			w.block(c.(*ast.CaseClause).Body, held)
		}
	case *ast.SelectStmt:
		for _, c := range x.Body.List {
			cc := c.(*ast.CommClause)
			if cc.Comm != nil {
				w.stmt(cc.Comm, held)
			}
			w.block(cc.Body, held)
		}
	case *ast.SendStmt:
		w.scanExpr(x.Chan, held, nil, false)
		w.scanExpr(x.Value, held, nil, false)
	case *ast.DeclStmt:
		w.scanExpr(x.Decl, held, nil, false)
	case *ast.LabeledStmt:
		return w.stmt(x.Stmt, held)
	}
	return held
}

func sfLeanStrList(xs []string) string {
	q := make([]string, len(xs))
	for i, x := range xs {
		q[i] = strconv.Quote(x)
	}
	return "[" + strings.Join(q, ", ") + "]"
}

func sfIntersect(a, b []string) []string {
	var out []string
	for _, x := range a {
		for _, y := range b {
			if x == y {
				out = append(out, x)
				break
			}
		}
	}
	return out
}

func sfUnion(a, b []string) []string {
	out := append([]string(nil), a...)
	for _, y := range b {
		out = sfWith(out, y)
	}
	sort.Strings(out)
	return out
}

func genSendFacts(repo string) (string, error) {
	fset := token.NewFileSet()
	files, err := filepath.Glob(repo + "/uasc/*.go")
	if err != nil {
		return "", err
	}
	w := &sfWalker{fset: fset, order: map[string][]string{}, funcs: map[string]bool{}}
	chanCap := -1
	leniencyMs := -1
	for _, fn := range files {
		base := filepath.Base(fn)
		if strings.HasSuffix(base, "_test.go") || strings.HasPrefix(base, "verif_") {
			continue
		}
		f, err := parser.ParseFile(fset, fn, nil, 0)
		if err != nil {
			return "", err
		}
		for _, d := range f.Decls {
			switch x := d.(type) {
			case *ast.FuncDecl:
				if x.Body == nil {
					continue
				}
				w.fn = x.Name.Name
				w.funcs[w.fn] = true
				w.block(x.Body.List, nil)
				if x.Name.Name == "sendAsyncWithTimeout" {
					ast.Inspect(x.Body, func(n ast.Node) bool {
						c, ok := n.(*ast.CallExpr)
						if !ok {
							return true
						}
						if id, ok := c.Fun.(*ast.Ident); ok && id.Name == "make" && len(c.Args) == 2 {
							if _, isChan := c.Args[0].(*ast.ChanType); isChan {
								if lit, ok := c.Args[1].(*ast.BasicLit); ok {
									chanCap, _ = strconv.Atoi(lit.Value)
								}
							}
						}
						return true
					})
				}
			case *ast.GenDecl:
				for _, sp := range x.Specs {
					vs, ok := sp.(*ast.ValueSpec)
					if !ok {
						continue
					}
					for i, nm := range vs.Names {
						if nm.Name == "timeoutLeniency" && i < len(vs.Values) {
							// <n> * time.Millisecond
							if b, ok := vs.Values[i].(*ast.BinaryExpr); ok && b.Op == token.MUL {
								if lit, ok := b.X.(*ast.BasicLit); ok && sfRender(b.Y) == "time.Millisecond" {
									leniencyMs, _ = strconv.Atoi(lit.Value)
								}
							}
						}
					}
				}
			}
		}
	}
	if chanCap < 0 {
		return "", fmt.Errorf("sendfacts: no `make(chan …, n)` with a literal capacity in sendAsyncWithTimeout")
	}
	if leniencyMs < 0 {
		return "", fmt.Errorf("sendfacts: timeoutLeniency is not `<n> * time.Millisecond`")
	}

	// effective lock set of a function = intersection over its call sites of
	// (locks held at the site ∪ effective set of the caller); entry points
	// (no call site in the package, or started with `go`) have none.
	sites := map[string][]sfCall{}
	for _, c := range w.calls {
		if w.funcs[c.callee] {
			sites[c.callee] = append(sites[c.callee], c)
		}
	}
	universe := []string{"handlersMu", "requestIDMu", "instancesMu", "inst", "lockMu", "openingMu", "chunksMu"}
	eff := map[string][]string{}
	for f := range w.funcs {
		if len(sites[f]) == 0 {
			eff[f] = nil
		} else {
			eff[f] = universe
		}
	}
	effOf := func(fn string) []string { return eff[strings.TrimSuffix(strings.ReplaceAll(fn, "$lit", ""), "")] }
	for iter := 0; iter < 50; iter++ {
		changed := false
		for f, ss := range sites {
			cur := universe
			for _, c := range ss {
				var at []string
				if c.goStmt || strings.Contains(c.caller, "$lit") {
					at = c.held
					if c.goStmt {
						at = nil
					}
				} else {
					at = sfUnion(c.held, effOf(c.caller))
				}
				cur = sfIntersect(cur, at)
			}
			if strings.Join(cur, ",") != strings.Join(eff[f], ",") {
				eff[f] = cur
				changed = true
			}
		}
		if !changed {
			break
		}
	}

	var sb strings.Builder
	sb.WriteString("namespace Opcua.Gen.SendFacts\n\n")
	sb.WriteString("/-- one syntactic access of a shared field; `held` = mutexes held there, including those every\n    caller of the enclosing function holds (\"inst\" = the embedded mutex of a channel instance) -/\n")
	sb.WriteString("structure Access where\n  fn : String\n  field : String\n  line : Nat\n  write : Bool\n  held : List String\n  deriving Repr, DecidableEq\n\n")
	sort.SliceStable(w.accesses, func(i, j int) bool {
		a, b := w.accesses[i], w.accesses[j]
		if a.field != b.field {
			return a.field < b.field
		}
		return a.line < b.line
	})
	sb.WriteString("def accesses : List Access := [\n")
	for i, a := range w.accesses {
		held := a.held
		if !strings.Contains(a.fn, "$lit") {
			held = sfUnion(held, eff[a.fn])
		}
		sep := ","
		if i == len(w.accesses)-1 {
			sep = ""
		}
		fmt.Fprintf(&sb, "  { fn := %q, field := %q, line := %d, write := %v, held := %s }%s\n", a.fn, a.field, a.line, a.write, sfLeanStrList(held), sep)
	}
	sb.WriteString("]\n\n")
	sb.WriteString("/-- calls (other than verifPoint) in source order inside the functions of the send / renew path -/\n")
	for _, fn := range []string{"renew", "SendRequestWithTimeout", "sendRequestWithTimeout", "dispatcher"} {
		if _, ok := w.order[fn]; !ok {
			return "", fmt.Errorf("sendfacts: function %s not found", fn)
		}
		fmt.Fprintf(&sb, "def order_%s : List String := %s\n", fn, sfLeanStrList(w.order[fn]))
	}
	fmt.Fprintf(&sb, "\n/-- capacity of the response channel created in sendAsyncWithTimeout -/\ndef responseChanCap : Nat := %d\n", chanCap)
	fmt.Fprintf(&sb, "\n/-- `timeoutLeniency` in milliseconds -/\ndef timeoutLeniencyMs : Nat := %d\n", leniencyMs)
	sb.WriteString("\nend Opcua.Gen.SendFacts\n")
	return sb.String(), nil
}

// genRenewExpr matches the delay expression of scheduleRenewal:
//
//	const renewAfter = <num literal>
//	when := <unit> * time.Duration(instance.revisedLifetime.Seconds()*renewAfter)      (truncates to whole <unit>s)
//	when := time.Duration(float64(instance.revisedLifetime)*renewAfter)               (truncates to 1 ns)
//
// and emits the fraction as a rational and the truncation unit in
// nanoseconds. Anything else fails loudly.
func genRenewExpr(repo string) (string, error) {
	fset := token.NewFileSet()
	f, err := parser.ParseFile(fset, repo+"/uasc/secure_channel.go", nil, 0)
	if err != nil {
		return "", err
	}
	var fn *ast.FuncDecl
	for _, d := range f.Decls {
		if fd, ok := d.(*ast.FuncDecl); ok && fd.Name.Name == "scheduleRenewal" {
			fn = fd
		}
	}
	if fn == nil {
		return "", fmt.Errorf("renewexpr: scheduleRenewal not found")
	}
	frac := ""
	var whenExpr ast.Expr
	for _, s := range fn.Body.List {
		switch x := s.(type) {
		case *ast.DeclStmt:
			if gd, ok := x.Decl.(*ast.GenDecl); ok && gd.Tok == token.CONST {
				for _, sp := range gd.Specs {
					vs := sp.(*ast.ValueSpec)
					for i, nm := range vs.Names {
						if nm.Name == "renewAfter" {
							if lit, ok := vs.Values[i].(*ast.BasicLit); ok {
								frac = lit.Value
							}
						}
					}
				}
			}
		case *ast.AssignStmt:
			if len(x.Lhs) == 1 && sfRender(x.Lhs[0]) == "when" && len(x.Rhs) == 1 {
				whenExpr = x.Rhs[0]
			}
		}
	}
	if frac == "" || whenExpr == nil {
		return "", fmt.Errorf("renewexpr: `const renewAfter = <literal>` / `when := …` not found in scheduleRenewal")
	}
	// fraction as a rational with a power-of-ten denominator
	num, den := 0, 1
	{
		parts := strings.SplitN(frac, ".", 2)
		digits := parts[0]
		if len(parts) == 2 {
			digits += parts[1]
			for range parts[1] {
				den *= 10
			}
		}
		n, err := strconv.Atoi(digits)
		if err != nil {
			return "", fmt.Errorf("renewexpr: renewAfter = %s is not a decimal literal", frac)
		}
		num = n
		// lowest terms, so that 0.75 and 0.750 give the same facts
		g, b := num, den
		for b != 0 {
			g, b = b, g%b
		}
		if g > 1 {
			num, den = num/g, den/g
		}
	}
	unitNs := map[string]int64{"time.Second": 1e9, "time.Millisecond": 1e6, "time.Microsecond": 1e3, "time.Nanosecond": 1}
	isDurCall := func(e ast.Expr) (ast.Expr, bool) {
		c, ok := e.(*ast.CallExpr)
		if ok && sfRender(c.Fun) == "time.Duration" && len(c.Args) == 1 {
			return c.Args[0], true
		}
		return nil, false
	}
	isTimesFrac := func(e ast.Expr) (ast.Expr, bool) {
		b, ok := e.(*ast.BinaryExpr)
		if ok && b.Op == token.MUL && sfRender(b.Y) == "renewAfter" {
			return b.X, true
		}
		return nil, false
	}
	var unit int64
	form := ""
	if b, ok := whenExpr.(*ast.BinaryExpr); ok && b.Op == token.MUL {
		if u, ok := unitNs[sfRender(b.X)]; ok {
			if inner, ok := isDurCall(b.Y); ok {
				if x, ok := isTimesFrac(inner); ok && sfRender(x) == "instance.revisedLifetime.Seconds()" && u == 1e9 {
					unit, form = u, "unit * time.Duration(lifetime.Seconds()*renewAfter)"
				}
			}
		}
	} else if inner, ok := isDurCall(whenExpr); ok {
		if x, ok := isTimesFrac(inner); ok {
			if c, ok := x.(*ast.CallExpr); ok && sfRender(c.Fun) == "float64" && len(c.Args) == 1 && sfRender(c.Args[0]) == "instance.revisedLifetime" {
				unit, form = 1, "time.Duration(float64(lifetime)*renewAfter)"
			}
		}
	}
	if form == "" {
		return "", fmt.Errorf("renewexpr: %s: delay expression of scheduleRenewal has an unknown shape", fset.Position(whenExpr.Pos()))
	}
	var sb strings.Builder
	sb.WriteString("namespace Opcua.Gen.RenewExpr\n\n")
	fmt.Fprintf(&sb, "/-- matched at %s: `%s` with renewAfter = %s -/\n", strings.TrimPrefix(fset.Position(whenExpr.Pos()).String(), repo+"/"), form, frac)
	fmt.Fprintf(&sb, "def fracNum : Nat := %d\ndef fracDen : Nat := %d\n\n/-- the delay is truncated to a whole multiple of this many nanoseconds -/\ndef truncUnitNs : Nat := %d\n", num, den, unit)
	sb.WriteString("\nend Opcua.Gen.RenewExpr\n")
	_ = os.Stderr
	return sb.String(), nil
}
