package main

import (
	"bytes"
	"fmt"
	"strings"

	"github.com/gopcua/opcua/ua"
	"github.com/gopcua/opcua/uapolicy"
)

func init() {
	register("maxbody", "MaxBody.lean", func(repo string) (string, error) {
		d, err := translateArith(repo, arithSpec{
			File: "uasc/secure_channel_instance.go", Recv: "channelInstance", Func: "SetMaximumBodySize",
			LeanName: "setMaximumBodySize", Outputs: []string{"maxBodySize"}})
		if err != nil {
			return "", err
		}
		return "import OpcuaModel.Base.Algo\nnamespace Opcua.Gen\nopen Opcua\n\n" + d + "\nend Opcua.Gen\n", nil
	})
	register("seqnum", "SeqNum.lean", func(repo string) (string, error) {
		d, err := translateArith(repo, arithSpec{
			File: "uasc/secure_channel_instance.go", Recv: "channelInstance", Func: "nextSequenceNumber",
			LeanName: "nextSequenceNumber", Outputs: []string{"sequenceNumber", "return"}})
		if err != nil {
			return "", err
		}
		return "namespace Opcua.Gen\n\n" + d + "\nend Opcua.Gen\n", nil
	})
	register("reqid", "ReqID.lean", func(repo string) (string, error) {
		d, err := translateArith(repo, arithSpec{
			File: "uasc/secure_channel.go", Recv: "SecureChannel", Func: "nextRequestID",
			LeanName: "nextRequestID", Outputs: []string{"requestID", "return"}})
		if err != nil {
			return "", err
		}
		return "namespace Opcua.Gen\n\n" + d + "\nend Opcua.Gen\n", nil
	})
	register("policies", "Policies.lean", genPolicies)
}

func shortPolicy(uri string) string {
	return uri[strings.LastIndex(uri, "#")+1:]
}

// genPolicies evaluates the symmetric constructor of every supported policy
// (the code itself computes the parameters) and writes the parameter table.
func genPolicies(repo string) (string, error) {
	var sb strings.Builder
	sb.WriteString("import OpcuaModel.Base.Algo\nnamespace Opcua.Gen\nopen Opcua\n\n")
	nonce := bytes.Repeat([]byte{0x5a}, 32)
	var names []string
	for _, uri := range uapolicy.SupportedPolicies() {
		a, err := uapolicy.Symmetric(uri, nonce, nonce)
		if err != nil {
			return "", fmt.Errorf("Symmetric(%s): %v", uri, err)
		}
		n := "sym" + shortPolicy(uri)
		names = append(names, n)
		fmt.Fprintf(&sb, "/-- uapolicy.Symmetric(%q, …) -/\ndef %s : AlgoParams :=\n  { name := %q, blockSize := %d, plaintextBlockSize := %d, signatureLength := %d, remoteSignatureLength := %d }\n\n",
			uri, n, shortPolicy(uri), a.BlockSize(), a.PlaintextBlockSize(), a.SignatureLength(), a.RemoteSignatureLength())
	}
	fmt.Fprintf(&sb, "/-- every policy `uapolicy.SupportedPolicies()` returns -/\ndef symmetricRows : List AlgoParams := [%s]\n\n", strings.Join(names, ", "))
	fmt.Fprintf(&sb, "def policyNoneName : String := %q\n\n", shortPolicy(ua.SecurityPolicyURINone))
	sb.WriteString("end Opcua.Gen\n")
	return sb.String(), nil
}
