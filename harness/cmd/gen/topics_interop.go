package main

// Generator topic "interop" (property C37): the facts the connect-pipeline
// model needs, taken from the source tree under test:
//   * the supported policies (`uapolicy.SupportedPolicies()`, evaluated) with
//     their URI length and the nonce length of the asymmetric algorithm
//   * the modes that are meaningful for each policy: the non-zero entries of
//     the `securityLevels` table in uapolicy/securitypolicy.go (go/ast)
//   * the encoded length of the OpenSecureChannel request/response bodies the
//     client and the server build (real `ua` codec, evaluated)
//   * transport defaults (uacp.DefaultReceiveBufSize/DefaultSendBufSize), the
//     server's session nonce length (go/ast constant)
//   * the committed test identities /verif/testdata/keys (bits, DER length of
//     the a/b certificates) the table ranges over.

import (
	"fmt"
	"go/ast"
	"go/token"
	"os"
	"path/filepath"
	"runtime"
	"sort"
	"strconv"
	"strings"
	"time"

	"github.com/gopcua/opcua/ua"
	"github.com/gopcua/opcua/uacp"
	"github.com/gopcua/opcua/uapolicy"
)

func init() { register("interop", "Interop.lean", genInterop) }

func interopKeysDir() string {
	if d := os.Getenv("VERIF_KEYS"); d != "" {
		return d
	}
	_, file, _, _ := runtime.Caller(0)
	return filepath.Join(filepath.Dir(file), "..", "..", "..", "testdata", "keys")
}

func genInterop(repo string) (string, error) {
	p, err := asymParseDir(filepath.Join(repo, "uapolicy"))
	if err != nil {
		return "", err
	}
	uap, err := asymParseDir(filepath.Join(repo, "ua"))
	if err != nil {
		return "", err
	}
	srv, err := asymParseDir(filepath.Join(repo, "server"))
	if err != nil {
		return "", err
	}
	shortOf := map[string]string{}
	for n, e := range uap.consts {
		if bl, ok := e.(*ast.BasicLit); ok && bl.Kind == token.STRING && strings.HasPrefix(n, "SecurityPolicyURI") {
			s, _ := strconv.Unquote(bl.Value)
			if i := strings.LastIndex(s, "#"); i >= 0 && i+1 < len(s) {
				shortOf[n] = s[i+1:]
			}
		}
	}
	// securityLevels: policy -> [4]level
	levels := map[string][]int64{}
	for _, f := range p.files {
		for _, d := range f.Decls {
			gd, ok := d.(*ast.GenDecl)
			if !ok || gd.Tok != token.VAR {
				continue
			}
			for _, s := range gd.Specs {
				vs := s.(*ast.ValueSpec)
				if len(vs.Names) != 1 || vs.Names[0].Name != "securityLevels" || len(vs.Values) != 1 {
					continue
				}
				cl, ok := vs.Values[0].(*ast.CompositeLit)
				if !ok {
					return "", fmt.Errorf("securityLevels is not a composite literal")
				}
				for _, el := range cl.Elts {
					kv := el.(*ast.KeyValueExpr)
					sel, ok := kv.Key.(*ast.SelectorExpr)
					if !ok {
						return "", fmt.Errorf("securityLevels key is not ua.<const>")
					}
					nm, ok := shortOf[sel.Sel.Name]
					if !ok {
						return "", fmt.Errorf("securityLevels key %s unknown", sel.Sel.Name)
					}
					arr, ok := kv.Value.(*ast.CompositeLit)
					if !ok || len(arr.Elts) != 4 {
						return "", fmt.Errorf("securityLevels[%s] is not a 4-element array", nm)
					}
					for _, x := range arr.Elts {
						v, err := asymEval(x)
						if err != nil {
							return "", fmt.Errorf("securityLevels[%s]: %v", nm, err)
						}
						levels[nm] = append(levels[nm], v)
					}
				}
			}
		}
	}
	if len(levels) == 0 {
		return "", fmt.Errorf("securityLevels table not found")
	}
	sessNonce, err := asymEval(&ast.Ident{Name: "sessionNonceLength"}, srv.consts)
	if err != nil {
		return "", fmt.Errorf("server.sessionNonceLength: %v", err)
	}

	var sb strings.Builder
	sb.WriteString("namespace Opcua.Gen\n\n")
	sb.WriteString("/-- one supported policy: short name, URI length, nonce length of the asymmetric algorithm,\n    modes with a non-zero security level, encoded OpenSecureChannel request / response body lengths -/\nstructure InteropPolicy where\n  name : String\n  isNone : Bool\n  uriLen : Nat\n  nonceLen : Nat\n  modes : List Nat\n  opnReqBody : Nat\n  opnRespBody : Nat\n  deriving Repr, DecidableEq\n\n")
	var rows []string
	for _, uri := range uapolicy.SupportedPolicies() {
		nm := uri[strings.LastIndex(uri, "#")+1:]
		a, err := uapolicy.Asymmetric(uri, nil, nil)
		if err != nil {
			return "", fmt.Errorf("Asymmetric(%s, nil, nil): %v", uri, err)
		}
		lv, ok := levels[nm]
		if !ok {
			return "", fmt.Errorf("policy %s has no securityLevels entry", nm)
		}
		var modes []string
		for m, v := range lv {
			if v != 0 {
				modes = append(modes, strconv.Itoa(m))
			}
		}
		nonce := make([]byte, a.NonceLength())
		// the request the client builds in SecureChannel.open / newRequestMessage
		req := &ua.OpenSecureChannelRequest{
			RequestHeader:     &ua.RequestHeader{AuthenticationToken: ua.NewTwoByteNodeID(0), Timestamp: time.Now(), RequestHandle: 1, TimeoutHint: 10000},
			RequestType:       ua.SecurityTokenRequestTypeIssue,
			SecurityMode:      ua.MessageSecurityModeSignAndEncrypt,
			ClientNonce:       nonce,
			RequestedLifetime: 3600000,
		}
		rb, err := ua.Encode(req)
		if err != nil {
			return "", err
		}
		// the response the server builds in handleOpenSecureChannelRequest
		resp := &ua.OpenSecureChannelResponse{
			ResponseHeader: &ua.ResponseHeader{Timestamp: time.Now(), RequestHandle: 1, ServiceDiagnostics: &ua.DiagnosticInfo{},
				StringTable: []string{}, AdditionalHeader: ua.NewExtensionObject(nil)},
			SecurityToken: &ua.ChannelSecurityToken{ChannelID: 1, TokenID: 1, CreatedAt: time.Now(), RevisedLifetime: 3600000},
			ServerNonce:   nonce,
		}
		pb, err := ua.Encode(resp)
		if err != nil {
			return "", err
		}
		// + 4 bytes TypeID (four-byte ExpandedNodeID) written by EncodeChunks
		rows = append(rows, fmt.Sprintf("  { name := %q, isNone := %v, uriLen := %d, nonceLen := %d, modes := [%s], opnReqBody := %d, opnRespBody := %d }",
			nm, uri == ua.SecurityPolicyURINone, len(uri), a.NonceLength(), strings.Join(modes, ", "), len(rb)+4, len(pb)+4))
	}
	fmt.Fprintf(&sb, "/-- `uapolicy.SupportedPolicies()` -/\ndef interopPolicies : List InteropPolicy := [\n%s\n]\n\n", strings.Join(rows, ",\n"))
	fmt.Fprintf(&sb, "/-- uacp.DefaultReceiveBufSize / DefaultSendBufSize -/\ndef defaultReceiveBufSize : Nat := %d\ndef defaultSendBufSize : Nat := %d\n\n", uacp.DefaultReceiveBufSize, uacp.DefaultSendBufSize)
	fmt.Fprintf(&sb, "/-- server.sessionNonceLength -/\ndef sessionNonceLength : Nat := %d\n\n", sessNonce)

	// committed identities
	dir := interopKeysDir()
	ents, err := os.ReadDir(dir)
	if err != nil {
		return "", fmt.Errorf("key directory: %v", err)
	}
	type ident struct{ bits, a, b int }
	ids := map[int]*ident{}
	for _, e := range ents {
		var bits int
		var who string
		if n, _ := fmt.Sscanf(e.Name(), "rsa%d_%1s_cert.der", &bits, &who); n == 2 && strings.HasSuffix(e.Name(), "_cert.der") {
			st, err := os.Stat(filepath.Join(dir, e.Name()))
			if err != nil {
				return "", err
			}
			if ids[bits] == nil {
				ids[bits] = &ident{bits: bits}
			}
			if who == "a" {
				ids[bits].a = int(st.Size())
			} else {
				ids[bits].b = int(st.Size())
			}
		}
	}
	var bitsL []int
	for b := range ids {
		bitsL = append(bitsL, b)
	}
	sort.Ints(bitsL)
	var kl []string
	for _, b := range bitsL {
		kl = append(kl, fmt.Sprintf("(%d, %d, %d)", b, ids[b].a, ids[b].b))
	}
	if len(kl) == 0 {
		return "", fmt.Errorf("no test identities in %s", dir)
	}
	fmt.Fprintf(&sb, "/-- committed test identities: (key bits, DER length of the client (a) certificate, of the server (b) certificate) -/\ndef testKeys : List (Nat × Nat × Nat) := [%s]\n\nend Opcua.Gen\n", strings.Join(kl, ", "))
	return sb.String(), nil
}
