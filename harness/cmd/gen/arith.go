package main

// A deliberately tiny go/ast → Lean translator for straight-line integer
// code: `:=`/`=`/`++`/`op=` on integer variables and receiver fields, `if`
// with such assignments in its branches, `return`, integer literals, named
// constants from a fixed table, + - * / % and comparisons, conversions
// uint32(·)/int(·) and calls `recv.algo.Method()` which become fields of an
// `AlgoParams` value.  Go `int` is modelled by `Int` (no overflow: trusted,
// the values involved are far below 2^63), `uint32` by `Int` reduced mod
// 2^32 at every store, `/` and `%` by `Int.tdiv`/`Int.tmod` (Go truncates
// toward zero).  Anything outside the fragment makes the translator fail
// loudly; the caller then has no generated file and the proof obligation that
// imports it is reported as broken.

import (
	"fmt"
	"go/ast"
	"go/parser"
	"go/token"
	"sort"
	"strings"
)

type arithSpec struct {
	File     string   // path relative to the repository root
	Recv     string   // receiver type name
	Func     string   // method name
	LeanName string   // name of the generated definition
	Outputs  []string // receiver fields written / "return", in result order
}

type arithTr struct {
	fset    *token.FileSet
	recv    string            // receiver identifier in the method
	fields  map[string]string // receiver struct field -> Go type
	locals  map[string]string // local variable -> Go type
	params  []string          // int parameters
	readFld map[string]bool   // receiver fields read before written
	usesAlg bool
	lines   []string
	ret     string
	err     error
}

var constTable = map[string]string{
	"math.MaxUint32": "4294967295",
	"math.MaxInt32":  "2147483647",
	"math.MaxUint16": "65535",
}

func (t *arithTr) fail(n ast.Node, f string, a ...interface{}) {
	if t.err == nil {
		t.err = fmt.Errorf("%s: outside the translatable fragment: %s", t.fset.Position(n.Pos()), fmt.Sprintf(f, a...))
	}
}

func leanVar(recvField bool, name string) string {
	if recvField {
		return "c_" + name
	}
	return name
}

// expr translates an integer or boolean expression.
func (t *arithTr) expr(e ast.Expr) string {
	switch x := e.(type) {
	case *ast.BasicLit:
		if x.Kind != token.INT {
			t.fail(e, "literal %s", x.Value)
		}
		return "(" + x.Value + " : Int)"
	case *ast.Ident:
		if _, ok := t.locals[x.Name]; ok {
			return x.Name
		}
		for _, p := range t.params {
			if p == x.Name {
				return x.Name
			}
		}
		t.fail(e, "identifier %s", x.Name)
		return "0"
	case *ast.ParenExpr:
		return "(" + t.expr(x.X) + ")"
	case *ast.SelectorExpr:
		if id, ok := x.X.(*ast.Ident); ok {
			if id.Name == t.recv {
				if _, ok := t.fields[x.Sel.Name]; !ok {
					t.fail(e, "unknown receiver field %s", x.Sel.Name)
				}
				t.readFld[x.Sel.Name] = true
				return leanVar(true, x.Sel.Name)
			}
			if v, ok := constTable[id.Name+"."+x.Sel.Name]; ok {
				return "(" + v + " : Int)"
			}
		}
		t.fail(e, "selector")
		return "0"
	case *ast.CallExpr:
		// conversions
		if id, ok := x.Fun.(*ast.Ident); ok && len(x.Args) == 1 {
			switch id.Name {
			case "uint32":
				return "((" + t.expr(x.Args[0]) + ") % 4294967296)"
			case "int", "int64":
				return t.expr(x.Args[0])
			}
		}
		// recv.algo.Method()
		if sel, ok := x.Fun.(*ast.SelectorExpr); ok && len(x.Args) == 0 {
			if in, ok := sel.X.(*ast.SelectorExpr); ok {
				if id, ok := in.X.(*ast.Ident); ok && id.Name == t.recv && in.Sel.Name == "algo" {
					t.usesAlg = true
					m := sel.Sel.Name
					return "algo." + strings.ToLower(m[:1]) + m[1:]
				}
			}
		}
		t.fail(e, "call")
		return "0"
	case *ast.BinaryExpr:
		a, b := t.expr(x.X), t.expr(x.Y)
		switch x.Op {
		case token.ADD:
			return "(" + a + " + " + b + ")"
		case token.SUB:
			return "(" + a + " - " + b + ")"
		case token.MUL:
			return "(" + a + " * " + b + ")"
		case token.QUO:
			return "(Int.tdiv " + a + " " + b + ")"
		case token.REM:
			return "(Int.tmod " + a + " " + b + ")"
		case token.GTR:
			return "(decide (" + a + " > " + b + "))"
		case token.LSS:
			return "(decide (" + a + " < " + b + "))"
		case token.GEQ:
			return "(decide (" + a + " ≥ " + b + "))"
		case token.LEQ:
			return "(decide (" + a + " ≤ " + b + "))"
		case token.EQL:
			return "(decide (" + a + " = " + b + "))"
		case token.NEQ:
			return "(decide (" + a + " ≠ " + b + "))"
		case token.LAND:
			return "(" + a + " && " + b + ")"
		case token.LOR:
			return "(" + a + " || " + b + ")"
		}
		t.fail(e, "operator %s", x.Op)
		return "0"
	case *ast.UnaryExpr:
		if x.Op == token.NOT {
			return "(!" + t.expr(x.X) + ")"
		}
		if x.Op == token.SUB {
			return "(- " + t.expr(x.X) + ")"
		}
	}
	t.fail(e, "expression %T", e)
	return "0"
}

// target resolves an assignable expression to (lean name, Go type).
func (t *arithTr) target(e ast.Expr, define bool) (string, string) {
	switch x := e.(type) {
	case *ast.Ident:
		if define {
			t.locals[x.Name] = "int"
		}
		if ty, ok := t.locals[x.Name]; ok {
			return x.Name, ty
		}
	case *ast.SelectorExpr:
		if id, ok := x.X.(*ast.Ident); ok && id.Name == t.recv {
			if ty, ok := t.fields[x.Sel.Name]; ok {
				return leanVar(true, x.Sel.Name), ty
			}
		}
	}
	t.fail(e, "assignment target")
	return "_", "int"
}

func wrap(ty, v string) string {
	switch ty {
	case "uint32":
		return "(" + v + " % 4294967296)"
	case "int", "int64":
		return v
	}
	return "(UNSUPPORTED_TYPE_" + ty + " " + v + ")"
}

// assign translates one simple statement into (variable, value).
func (t *arithTr) assign(s ast.Stmt) (string, string, bool) {
	switch x := s.(type) {
	case *ast.AssignStmt:
		if len(x.Lhs) != 1 || len(x.Rhs) != 1 {
			t.fail(s, "multi-assignment")
			return "", "", false
		}
		rhs := t.expr(x.Rhs[0])
		name, ty := t.target(x.Lhs[0], x.Tok == token.DEFINE)
		if ty != "int" && ty != "int64" && ty != "uint32" {
			t.fail(s, "variable of type %s", ty)
		}
		switch x.Tok {
		case token.DEFINE, token.ASSIGN:
			return name, wrap(ty, rhs), true
		case token.ADD_ASSIGN:
			return name, wrap(ty, "("+name+" + "+rhs+")"), true
		case token.SUB_ASSIGN:
			return name, wrap(ty, "("+name+" - "+rhs+")"), true
		}
		t.fail(s, "assignment operator %s", x.Tok)
	case *ast.IncDecStmt:
		name, ty := t.target(x.X, false)
		if sel, ok := x.X.(*ast.SelectorExpr); ok {
			t.readFld[sel.Sel.Name] = true
		}
		if x.Tok == token.INC {
			return name, wrap(ty, "("+name+" + 1)"), true
		}
		return name, wrap(ty, "("+name+" - 1)"), true
	}
	t.fail(s, "statement %T", s)
	return "", "", false
}

func isLockCall(e ast.Expr) bool {
	c, ok := e.(*ast.CallExpr)
	if !ok {
		return false
	}
	sel, ok := c.Fun.(*ast.SelectorExpr)
	return ok && (sel.Sel.Name == "Lock" || sel.Sel.Name == "Unlock")
}

func (t *arithTr) stmts(list []ast.Stmt) {
	for _, s := range list {
		switch x := s.(type) {
		case *ast.ExprStmt:
			if isLockCall(x.X) {
				continue
			}
			t.fail(s, "expression statement")
		case *ast.DeferStmt:
			if isLockCall(x.Call) {
				continue
			}
			t.fail(s, "defer")
		case *ast.ReturnStmt:
			if len(x.Results) == 1 {
				t.ret = t.expr(x.Results[0])
			} else if len(x.Results) != 0 {
				t.fail(s, "multi-value return")
			}
		case *ast.IfStmt:
			if x.Init != nil {
				t.fail(s, "if with init")
			}
			cond := t.expr(x.Cond)
			thenA := map[string]string{}
			elseA := map[string]string{}
			var order []string
			for _, b := range x.Body.List {
				n, v, ok := t.assign(b)
				if !ok {
					return
				}
				if _, dup := thenA[n]; dup {
					t.fail(b, "variable assigned twice in a branch")
				}
				thenA[n] = v
				order = append(order, n)
			}
			if x.Else != nil {
				blk, ok := x.Else.(*ast.BlockStmt)
				if !ok {
					t.fail(s, "else-if")
					return
				}
				for _, b := range blk.List {
					n, v, ok := t.assign(b)
					if !ok {
						return
					}
					if _, dup := elseA[n]; dup {
						t.fail(b, "variable assigned twice in a branch")
					}
					elseA[n] = v
					if _, seen := thenA[n]; !seen {
						order = append(order, n)
					}
				}
			}
			// branches may not read a variable assigned earlier in the same
			// branch (parallel assignment would differ); reject to stay sound.
			if len(order) > 1 {
				t.fail(s, "more than one assignment under an if")
			}
			for _, n := range order {
				a, ok := thenA[n]
				if !ok {
					a = n
				}
				b, ok := elseA[n]
				if !ok {
					b = n
				}
				t.lines = append(t.lines, fmt.Sprintf("  let %s : Int := if %s then %s else %s", n, cond, a, b))
			}
		default:
			n, v, ok := t.assign(s)
			if ok {
				t.lines = append(t.lines, fmt.Sprintf("  let %s : Int := %s", n, v))
			}
		}
	}
}

func translateArith(repo string, sp arithSpec) (string, error) {
	fset := token.NewFileSet()
	f, err := parser.ParseFile(fset, repo+"/"+sp.File, nil, 0)
	if err != nil {
		return "", err
	}
	t := &arithTr{fset: fset, fields: map[string]string{}, locals: map[string]string{}, readFld: map[string]bool{}}
	// receiver struct fields (may live in another file of the package)
	pkgs, err := parser.ParseDir(fset, repo+"/"+sp.File[:strings.LastIndex(sp.File, "/")], nil, 0)
	if err != nil {
		return "", err
	}
	for _, p := range pkgs {
		for _, pf := range p.Files {
			ast.Inspect(pf, func(n ast.Node) bool {
				ts, ok := n.(*ast.TypeSpec)
				if !ok || ts.Name.Name != sp.Recv {
					return true
				}
				if st, ok := ts.Type.(*ast.StructType); ok {
					for _, fl := range st.Fields.List {
						ty := ""
						if id, ok := fl.Type.(*ast.Ident); ok {
							ty = id.Name
						} else {
							ty = "other"
						}
						for _, nm := range fl.Names {
							t.fields[nm.Name] = ty
						}
					}
				}
				return false
			})
		}
	}
	var fn *ast.FuncDecl
	for _, d := range f.Decls {
		fd, ok := d.(*ast.FuncDecl)
		if !ok || fd.Name.Name != sp.Func || fd.Recv == nil || len(fd.Recv.List) != 1 {
			continue
		}
		rt := fd.Recv.List[0].Type
		if st, ok := rt.(*ast.StarExpr); ok {
			rt = st.X
		}
		if id, ok := rt.(*ast.Ident); ok && id.Name == sp.Recv {
			fn = fd
		}
	}
	if fn == nil {
		return "", fmt.Errorf("%s: method %s.%s not found", sp.File, sp.Recv, sp.Func)
	}
	if len(fn.Recv.List[0].Names) == 1 {
		t.recv = fn.Recv.List[0].Names[0].Name
	}
	for _, p := range fn.Type.Params.List {
		id, ok := p.Type.(*ast.Ident)
		if !ok || (id.Name != "int" && id.Name != "uint32") {
			return "", fmt.Errorf("%s: parameter type outside the fragment", fset.Position(p.Pos()))
		}
		for _, n := range p.Names {
			t.params = append(t.params, n.Name)
		}
	}
	t.stmts(fn.Body.List)
	if t.err != nil {
		return "", t.err
	}
	var args []string
	if t.usesAlg {
		args = append(args, "(algo : AlgoParams)")
	}
	var rf []string
	for k := range t.readFld {
		rf = append(rf, k)
	}
	sort.Strings(rf)
	for _, k := range rf {
		args = append(args, "(c_"+k+" : Int)")
	}
	for _, p := range t.params {
		args = append(args, "("+p+" : Int)")
	}
	var outs []string
	for _, o := range sp.Outputs {
		if o == "return" {
			if t.ret == "" {
				return "", fmt.Errorf("%s.%s: no return value", sp.Recv, sp.Func)
			}
			outs = append(outs, t.ret)
		} else {
			outs = append(outs, "c_"+o)
		}
	}
	ty := "Int"
	res := outs[0]
	if len(outs) == 2 {
		ty = "Int × Int"
		res = "(" + outs[0] + ", " + outs[1] + ")"
	}
	pos := fset.Position(fn.Pos())
	var sb strings.Builder
	fmt.Fprintf(&sb, "/-- translated from %s:%d `%s.%s`; result = (%s) -/\n", sp.File, pos.Line, sp.Recv, sp.Func, strings.Join(sp.Outputs, ", "))
	fmt.Fprintf(&sb, "def %s %s : %s :=\n", sp.LeanName, strings.Join(args, " "), ty)
	for _, l := range t.lines {
		sb.WriteString(l + "\n")
	}
	sb.WriteString("  " + res + "\n")
	return sb.String(), nil
}
