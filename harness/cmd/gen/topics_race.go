package main

// Generator topic of C36:
//
//	racefacts   Gen/RaceFacts.lean   every syntactic access of the fields of the shared structures of client,
//	                                 secure channel and server with the mutexes held there and the goroutine
//	                                 roots reaching it (analysis: harness/internal/racefacts)

import (
	"fmt"
	"strconv"
	"strings"

	"verifharness/internal/racefacts"
)

func init() {
	register("racefacts", "RaceFacts.lean", genRaceFacts)
}

func rfList(xs []string) string {
	q := make([]string, len(xs))
	for i, x := range xs {
		q[i] = strconv.Quote(x)
	}
	return "[" + strings.Join(q, ", ") + "]"
}

func genRaceFacts(repo string) (string, error) {
	t, err := racefacts.Analyze(repo)
	if err != nil {
		return "", err
	}
	if len(t.Sites) < 100 {
		return "", fmt.Errorf("racefacts: only %d access sites found; the analysis lost the source", len(t.Sites))
	}
	var sb strings.Builder
	sb.WriteString("import OpcuaModel.Model.LocksetTable\n\nnamespace Opcua.Gen.RaceFacts\nopen Opcua.Lockset\n\n")
	for _, n := range t.Notes {
		fmt.Fprintf(&sb, "-- %s\n", n)
	}
	sb.WriteString("\n/-- fields of the chosen structures: name, class (plain | atomic | sync | lock) -/\ndef fields : List (String × String) := [\n")
	for i, f := range t.Fields {
		sep := ","
		if i == len(t.Fields)-1 {
			sep = ""
		}
		fmt.Fprintf(&sb, "  (%q, %q)%s\n", f.Name, f.Class, sep)
	}
	sb.WriteString("]\n\n/-- mutex fields of the chosen structures: (mutex, struct) -/\ndef lockOwners : List (String × String) := [\n")
	var locks []racefacts.FieldInfo
	for _, f := range t.Fields {
		if f.Class == "lock" {
			locks = append(locks, f)
		}
	}
	for i, f := range locks {
		sep := ","
		if i == len(locks)-1 {
			sep = ""
		}
		fmt.Fprintf(&sb, "  (%q, %q)%s\n", f.Name, racefacts.StructOf(f.Name), sep)
	}
	sb.WriteString("]\n\n/-- one row per syntactic access -/\ndef sites : List Site := [\n")
	for i, s := range t.Sites {
		sep := ","
		if i == len(t.Sites)-1 {
			sep = ""
		}
		fmt.Fprintf(&sb, "  { id := %d, file := %q, line := %d, fn := %q, owner := %q, field := %q, kind := %q, fresh := %v, heldW := %s, heldR := %s, roots := %s }%s\n",
			s.ID, s.File, s.Line, s.Fn, racefacts.StructOf(s.Field), s.Field, s.Kind, s.Fresh, rfList(s.HeldW), rfList(s.HeldR), rfList(s.Roots), sep)
	}
	sb.WriteString("]\n\nend Opcua.Gen.RaceFacts\n")
	return sb.String(), nil
}
