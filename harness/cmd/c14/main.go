// Correspondence runner and property oracle for C14: symmetric keys follow the
// specification's P_SHA derivation and are direction separated.
//
// Implementation under test: uapolicy.Symmetric(uri, localNonce, remoteNonce)
// (keys read through the hook VerifSymmetricKeys and pinned a second time by
// behaviour: equal MAC and ciphertext) and generateKeys (hook
// VerifGenerateKeys).  References: (a) the harness's own P_SHA written from
// RFC 5246 §5 / Part 6 §6.7.5 with Go's crypto/hmac — the property's oracle;
// (b) the Lean model (`impl`, `genkeys`) and the Lean specification side
// (`spec`, `psha`, `mac`, `enc`) with the reference HMAC/AES — the tie.
package main

import (
	"bytes"
	"crypto"
	"crypto/aes"
	"crypto/cipher"
	"crypto/hmac"
	"crypto/sha1"
	"crypto/sha256"
	"fmt"
	"hash"
	"strings"

	"github.com/gopcua/opcua/ua"
	"github.com/gopcua/opcua/uapolicy"
	"github.com/gopcua/opcua/uasc"

	"verifharness/internal/h"
)

func short(uri string) string { return uri[strings.LastIndex(uri, "#")+1:] }

// ---- the harness's own reference (written from the specification)

type profile struct {
	hash                        func() hash.Hash
	chash                       crypto.Hash
	hname                       string
	sigKey, encKey, block, sigL int
}

var profiles = map[string]profile{
	"Basic128Rsa15":         {sha1.New, crypto.SHA1, "sha1", 16, 16, 16, 20},
	"Basic256":              {sha1.New, crypto.SHA1, "sha1", 24, 32, 16, 20},
	"Basic256Sha256":        {sha256.New, crypto.SHA256, "sha256", 32, 32, 16, 32},
	"Aes128_Sha256_RsaOaep": {sha256.New, crypto.SHA256, "sha256", 32, 16, 16, 32},
	"Aes256_Sha256_RsaPss":  {sha256.New, crypto.SHA256, "sha256", 32, 32, 16, 32},
}

func mac(hf func() hash.Hash, key, msg []byte) []byte {
	m := hmac.New(hf, key)
	m.Write(msg)
	return m.Sum(nil)
}

// pSha: P_hash(secret, seed) = HMAC(secret, A(1)+seed) + HMAC(secret, A(2)+seed) + …,
// A(0) = seed, A(i) = HMAC(secret, A(i-1)); first n bytes.
func pSha(hf func() hash.Hash, secret, seed []byte, n int) []byte {
	var out []byte
	a := seed
	for len(out) < n {
		a = mac(hf, secret, a)
		out = append(out, mac(hf, secret, append(append([]byte{}, a...), seed...))...)
	}
	return out[:n]
}

type dirKeys struct{ sign, enc, iv []byte }

// specKeys: Part 6 §6.7.5 — client keys: secret = ServerNonce, seed = ClientNonce; server keys the other way round.
func specKeys(p profile, role string, cn, sn []byte) dirKeys {
	secret, seed := sn, cn
	if role == "server" {
		secret, seed = cn, sn
	}
	s := pSha(p.hash, secret, seed, p.sigKey+p.encKey+p.block)
	return dirKeys{s[:p.sigKey], s[p.sigKey : p.sigKey+p.encKey], s[p.sigKey+p.encKey:]}
}

func cbc(enc bool, key, iv, in []byte) []byte {
	b, err := aes.NewCipher(key)
	if err != nil {
		return nil
	}
	out := make([]byte, len(in))
	if enc {
		cipher.NewCBCEncrypter(b, iv).CryptBlocks(out, in)
	} else {
		cipher.NewCBCDecrypter(b, iv).CryptBlocks(out, in)
	}
	return out
}

type env struct {
	o   *h.Opts
	r   *h.Result
	d   *h.Driver
	rnd *h.Rand

	sepTotal, sepDistinct, sepImpl int // nonce pairs cn≠sn; with pairwise distinct specification keys; with distinct keys in the real object
}

func (e *env) nonce(kind int, n int) []byte {
	switch kind {
	case 0:
		return e.rnd.Bytes(n)
	case 1:
		return make([]byte, n)
	case 2:
		return bytes.Repeat([]byte{0xff}, n)
	default:
		b := make([]byte, n)
		for i := range b {
			b[i] = byte(i)
		}
		return b
	}
}

func (e *env) one(uri string, cn, sn []byte, tag string) {
	pol := short(uri)
	p := profiles[pol]
	canon := fmt.Sprintf("sym %s %s %s", pol, h.Hex(cn), h.Hex(sn))
	e.r.Count(canon, true)
	e.r.Hit("policy:" + pol)
	e.r.Hit("nonces:" + tag)
	fail := func(detail string) { e.r.Fail(canon, "", detail) }

	var client, server *uapolicy.EncryptionAlgorithm
	var err error
	if res, msg := h.CatchMsg(func() string {
		if client, err = uapolicy.Symmetric(uri, cn, sn); err != nil {
			return "Symmetric(client): " + err.Error()
		}
		if server, err = uapolicy.Symmetric(uri, sn, cn); err != nil {
			return "Symmetric(server): " + err.Error()
		}
		return "ok"
	}); res != "ok" {
		fail("uapolicy.Symmetric: " + res + " " + msg)
		return
	}
	ck, sk := specKeys(p, "client", cn, sn), specKeys(p, "server", cn, sn)
	e.r.Sample(fmt.Sprintf("%s -> client signing key %s", canon, h.Hex(ck.sign)))

	// ---- the keys themselves (hook)
	for _, side := range []struct {
		name       string
		algo       *uapolicy.EncryptionAlgorithm
		ln, rn     []byte
		send, recv dirKeys
	}{{"client", client, cn, sn, ck, sk}, {"server", server, sn, cn, sk, ck}} {
		sg, ek, eiv, vk, dk, div, ok := uapolicy.VerifSymmetricKeys(side.algo)
		if !ok {
			fail("not an AES/HMAC algorithm")
			return
		}
		e.r.Compare(e.d, fmt.Sprintf("impl %s %s %s", pol, h.Hex(side.ln), h.Hex(side.rn)),
			fmt.Sprintf("%s %s %s %s %s %s", h.Hex(sg), h.Hex(ek), h.Hex(eiv), h.Hex(vk), h.Hex(dk), h.Hex(div)))
		e.r.Compare(e.d, fmt.Sprintf("spec %s %s %s %s", pol, side.name, h.Hex(cn), h.Hex(sn)),
			fmt.Sprintf("%s %s %s", h.Hex(side.send.sign), h.Hex(side.send.enc), h.Hex(side.send.iv)))
		// oracle: the keys are the specification's
		if !bytes.Equal(sg, side.send.sign) || !bytes.Equal(ek, side.send.enc) || !bytes.Equal(eiv, side.send.iv) {
			fail(side.name + ": sending keys differ from the specification's " + side.name + " keys")
		}
		if !bytes.Equal(vk, side.recv.sign) || !bytes.Equal(dk, side.recv.enc) || !bytes.Equal(div, side.recv.iv) {
			fail(side.name + ": receiving keys differ from the specification's keys of the peer")
		}
	}

	// ---- direction separation for these concrete nonces: the three keys of the two directions differ pairwise
	if !bytes.Equal(cn, sn) {
		e.sepTotal++
		if !bytes.Equal(ck.sign, sk.sign) && !bytes.Equal(ck.enc, sk.enc) && !bytes.Equal(ck.iv, sk.iv) {
			e.sepDistinct++
		} else {
			fail("the client and server keys of distinct nonces coincide (signing/encrypting key or IV)")
		}
		if sg, ek, eiv, vk, dk, div, ok := uapolicy.VerifSymmetricKeys(client); ok {
			if bytes.Equal(sg, vk) || bytes.Equal(ek, dk) || bytes.Equal(eiv, div) {
				fail("the real algorithm object sends and receives with the same key")
			} else {
				e.sepImpl++
			}
		}
	}

	// ---- pinned by behaviour: MAC and ciphertext
	msg := e.rnd.Bytes(e.rnd.Intn(200))
	pt := e.rnd.Bytes(16 * (1 + e.rnd.Intn(6)))
	for _, dir := range []struct {
		role     string
		snd, rcv *uapolicy.EncryptionAlgorithm
		k        dirKeys
	}{{"client", client, server, ck}, {"server", server, client, sk}} {
		sig, err := dir.snd.Signature(msg)
		if err != nil {
			fail("Signature: " + err.Error())
			continue
		}
		e.r.Compare(e.d, fmt.Sprintf("mac %s %s %s %s %s", pol, dir.role, h.Hex(cn), h.Hex(sn), h.Hex(msg)), h.Hex(sig))
		if !bytes.Equal(sig, mac(p.hash, dir.k.sign, msg)) {
			fail(dir.role + ": MAC is not HMAC with the specification's signing key")
		}
		if len(sig) != dir.snd.SignatureLength() || len(sig) != dir.rcv.RemoteSignatureLength() {
			fail("signature length")
		}
		if err := dir.rcv.VerifySignature(msg, sig); err != nil {
			fail(dir.role + ": the peer does not verify the signature")
		}
		ct, err := dir.snd.Encrypt(pt)
		if err != nil {
			fail("Encrypt: " + err.Error())
			continue
		}
		e.r.Compare(e.d, fmt.Sprintf("enc %s %s %s %s %s", pol, dir.role, h.Hex(cn), h.Hex(sn), h.Hex(pt)), h.Hex(ct))
		if !bytes.Equal(ct, cbc(true, dir.k.enc, dir.k.iv, pt)) {
			fail(dir.role + ": ciphertext is not AES-CBC with the specification's key and IV")
		}
		back, err := dir.rcv.Decrypt(ct)
		if err != nil || !bytes.Equal(back, pt) {
			fail(dir.role + ": the peer does not decrypt the ciphertext")
		}
		e.r.Compare(e.d, fmt.Sprintf("dec %s %s %s %s %s", pol, dir.role, h.Hex(cn), h.Hex(sn), h.Hex(ct)), h.Hex(back))
		// every later message on the same algorithm object uses the derived key and IV again
		// (Part 6: each chunk is encrypted with the derived InitializationVector), also when a
		// chunk is decrypted twice or out of order
		for k := 0; k < 2; k++ {
			pt2 := e.rnd.Bytes(16 * (1 + e.rnd.Intn(4)))
			ct2, err := dir.snd.Encrypt(pt2)
			if err != nil || !bytes.Equal(ct2, cbc(true, dir.k.enc, dir.k.iv, pt2)) {
				fail(fmt.Sprintf("%s: ciphertext of message %d on the same algorithm object is not AES-CBC with the specification's key and IV", dir.role, k+2))
			}
			e.r.Compare(e.d, fmt.Sprintf("enc %s %s %s %s %s", pol, dir.role, h.Hex(cn), h.Hex(sn), h.Hex(pt2)), h.Hex(ct2))
			ref2 := cbc(true, dir.k.enc, dir.k.iv, pt2)
			if b2, err := dir.rcv.Decrypt(ref2); err != nil || !bytes.Equal(b2, pt2) {
				fail(fmt.Sprintf("%s: the peer does not decrypt message %d (reference ciphertext)", dir.role, k+2))
			}
			if b1, err := dir.rcv.Decrypt(ct); err != nil || !bytes.Equal(b1, pt) {
				fail(dir.role + ": the peer does not decrypt the first ciphertext a second time")
			}
			sig2, _ := dir.snd.Signature(pt2)
			if !bytes.Equal(sig2, mac(p.hash, dir.k.sign, pt2)) {
				fail(dir.role + ": MAC of a later message is not HMAC with the specification's signing key")
			}
			e.r.Hit("repeat-on-same-object")
		}

		// ---- reflected traffic: the sender's own receive keys must not accept it
		if bytes.Equal(cn, sn) {
			e.r.Hit("reflect:equal-nonces-skipped")
			continue
		}
		if err := dir.snd.VerifySignature(msg, sig); err == nil {
			fail(dir.role + ": its own signature verifies with its receive key (reflected traffic accepted)")
		} else {
			e.r.Hit("reflect:mac-rejected")
		}
		if own, err := dir.snd.Decrypt(ct); err == nil && bytes.Equal(own, pt) {
			fail(dir.role + ": its own ciphertext decrypts with its receive key")
		} else {
			e.r.Hit("reflect:ciphertext-garbled")
		}
	}

	// ---- reflected chunk through the channel instance (verifyAndDecrypt)
	if !bytes.Equal(cn, sn) {
		for _, mode := range []ua.MessageSecurityMode{ua.MessageSecurityModeSign, ua.MessageSecurityModeSignAndEncrypt} {
			inst, err := uasc.VerifNewSymmetricInstance(uri, mode, cn, sn)
			if err != nil {
				continue
			}
			body := e.rnd.Bytes(e.rnd.Intn(100))
			raw := append([]byte{'M', 'S', 'G', 'F', 0, 0, 0, 0, 1, 0, 0, 0, 1, 0, 0, 0, 1, 0, 0, 0, 1, 0, 0, 0}, body...)
			raw[4] = byte(len(raw))
			m := &uasc.Message{MessageHeader: &uasc.MessageHeader{
				Header:                  uasc.NewHeader(uasc.MessageTypeMessage, uasc.ChunkTypeFinal, 1),
				SymmetricSecurityHeader: uasc.NewSymmetricSecurityHeader(1),
				SequenceHeader:          uasc.NewSequenceHeader(1, 1),
			}}
			w, err := inst.SignAndEncrypt(m, raw)
			if err != nil {
				fail("signAndEncrypt: " + err.Error())
				continue
			}
			res := h.Catch(func() string {
				if _, err := inst.VerifyAndDecryptRaw(w); err != nil {
					return "err"
				}
				return "ok"
			})
			if res == "ok" {
				fail(fmt.Sprintf("mode %d: a chunk reflected to its sender passes verifyAndDecrypt", mode))
			} else {
				e.r.Hit("reflect:chunk-" + res)
			}
		}
	}
}

func (e *env) genKeys() {
	p := []profile{profiles["Basic256"], profiles["Basic256Sha256"]}[e.rnd.Intn(2)]
	secret := e.rnd.Bytes(e.rnd.Pick(0, 1, 16, 32, 63, 64, 65, 100))
	seed := e.rnd.Bytes(e.rnd.Pick(0, 1, 16, 32, 33, 80))
	a, b, c := e.rnd.Pick(0, 1, 16, 20, 24, 32, 33), e.rnd.Pick(0, 16, 32, 47), e.rnd.Pick(0, 16, 17, 64)
	if e.rnd.Chance(10) {
		a = 100 + e.rnd.Intn(400)
	}
	canon := fmt.Sprintf("genkeys %s %s %s %d %d %d", p.hname, h.Hex(secret), h.Hex(seed), a, b, c)
	var s, k, iv []byte
	if res, msg := h.CatchMsg(func() string { s, k, iv = uapolicy.VerifGenerateKeys(p.chash, secret, seed, a, b, c); return "ok" }); res != "ok" {
		e.r.Count(canon, true)
		e.r.Fail(canon, "", "generateKeys panics: "+msg)
		e.r.Compare(e.d, canon, "panic")
		return
	}
	e.r.Count(canon, true)
	e.r.Hit("genkeys")
	if a+b+c == 0 {
		e.r.Hit("genkeys:zero-length")
	}
	e.r.Compare(e.d, canon, fmt.Sprintf("%s %s %s", h.Hex(s), h.Hex(k), h.Hex(iv)))
	ref := pSha(p.hash, secret, seed, a+b+c)
	e.r.Compare(e.d, fmt.Sprintf("psha %s %s %s %d", p.hname, h.Hex(secret), h.Hex(seed), a+b+c), h.Hex(ref))
	if !bytes.Equal(s, ref[:a]) || !bytes.Equal(k, ref[a:a+b]) || !bytes.Equal(iv, ref[a+b:]) {
		e.r.Fail(canon, "", "generateKeys is not the slices of P_SHA")
	}
}

func main() {
	o := h.ParseOpts()
	r := h.NewResult("C14", o)
	d, err := h.StartDriver(o.Driver)
	if err != nil {
		r.InfraError = err.Error()
		r.Write(o.Out)
		return
	}
	defer d.Close()
	e := &env{o: o, r: r, d: d, rnd: h.NewRand(o.Seed)}
	r.Rule = "case = (policy, client nonce, server nonce): uapolicy.Symmetric for both roles; keys (hook) = Lean model of the constructor = specification keys (harness P_SHA and Lean Spec); MAC / ciphertext of the real code = HMAC / AES-CBC with the specification's keys (Lean reference crypto and Go crypto); the peer verifies and decrypts; the sender's own receive side rejects its MAC, garbles its ciphertext, and verifyAndDecrypt rejects a reflected chunk (nonces differ). Nonces: random of the policy length, all-zero, all-ff, counting, lengths 0..100, one-bit difference, equal (separation not expected). Plus generateKeys for arbitrary lengths against the loop model and P_SHA. Distinct by (policy, nonces)."
	if d != nil {
		if a := d.Ask("selftest"); a != "ok" {
			r.Disagree("selftest", a, "ok")
		}
	}
	var uris []string
	for _, u := range uapolicy.SupportedPolicies() {
		if u == ua.SecurityPolicyURINone {
			continue
		}
		if _, ok := profiles[short(u)]; !ok {
			r.Fail("policy "+short(u), "", "policy without a specification profile in the harness")
			continue
		}
		uris = append(uris, u)
	}
	for _, u := range uris {
		nl := 32
		if short(u) == "Basic128Rsa15" {
			nl = 16
		}
		for i := 0; i < o.N(40, 600); i++ {
			e.one(u, e.rnd.Bytes(nl), e.rnd.Bytes(nl), "random")
		}
		for k := 1; k < 4; k++ {
			e.one(u, e.nonce(k, nl), e.nonce(0, nl), "structured")
			e.one(u, e.nonce(0, nl), e.nonce(k, nl), "structured")
			e.one(u, e.nonce(k, nl), e.nonce(k%3+1, nl), "structured")
		}
		for _, n := range []int{0, 1, 15, 20, 33, 64, 65, 100} {
			e.one(u, e.rnd.Bytes(n), e.rnd.Bytes(nl), "odd-length")
			e.one(u, e.rnd.Bytes(nl), e.rnd.Bytes(n), "odd-length")
		}
		a := e.rnd.Bytes(nl)
		b := append([]byte{}, a...)
		b[e.rnd.Intn(nl)] ^= 1 << uint(e.rnd.Intn(8))
		e.one(u, a, b, "one-bit")
		e.one(u, a, append([]byte{}, a...), "equal")
	}
	for i := 0; i < o.N(300, 2500); i++ {
		e.genKeys()
	}
	r.Notes = append(r.Notes, fmt.Sprintf("direction separation, concrete nonces: %d sampled nonce pairs with clientNonce != serverNonce; %d had pairwise distinct client/server signing key, encrypting key and IV by the specification's derivation; %d had pairwise distinct send/receive keys inside the real EncryptionAlgorithm; every one of them rejected its own reflected MAC, ciphertext and chunk (reflect:* counters)", e.sepTotal, e.sepDistinct, e.sepImpl))
	r.Distribution["separation:pairs"] = e.sepTotal
	r.Distribution["separation:distinct-spec-keys"] = e.sepDistinct
	r.Distribution["separation:distinct-impl-keys"] = e.sepImpl
	for _, b := range []string{"reflect:mac-rejected", "reflect:ciphertext-garbled", "reflect:chunk-err", "genkeys:zero-length", "nonces:equal", "nonces:one-bit"} {
		if r.Distribution[b] == 0 {
			r.Unreached = append(r.Unreached, b)
		}
	}
	r.Write(o.Out)
}
