// Correspondence runner and property oracle for C34: concurrent reads and
// writes of node values are linearizable.
//
// Several real clients (own TCP connection and session each) read and write a
// few shared nodes concurrently.  Every operation carries a unique id (the
// value written / the MaxAge of the read).  A verifPoint in the server's
// dispatch loop logs the order in which the single dispatcher goroutine takes
// the requests.  All events are stamped with one atomic logical clock.
//
//   tie:    the merged trace (invocation, dispatcher step, response) must be a
//           well-formed trace of the Lean machine `Linear.mrun` over the
//           attribute service model, i.e. the results equal the register
//           machine run in dispatcher order and every dispatcher step lies
//           between invocation and response of its operation;
//   oracle: the client-side history alone (intervals and results, no hook) is
//           checked for linearizability w.r.t. one register per node by an
//           exhaustive search (Wing & Gong with memoisation).
package main

import (
	"context"
	"fmt"
	"io"
	"log"
	"net"
	"os"
	"os/exec"
	"sort"
	"strconv"
	"strings"
	"sync"
	"sync/atomic"
	"time"

	"github.com/gopcua/opcua"
	"github.com/gopcua/opcua/server"
	"github.com/gopcua/opcua/ua"

	"verifharness/internal/h"
)

type opRec struct {
	id        int
	node      int
	write     bool
	val       int // value written / value read
	ok        bool
	inv, resp int64
	stamp     int    // write: seconds of the client supplied source timestamp (0 = none)
	rng       string // read: IndexRange
	begin     int64  // dispatcher step (0 = never seen)
	end       int64
	errText   string
	app       bool // performed by the embedding application outside the dispatcher
	// a request with several entries (same node more than once, mixed with other nodes): the entries
	// take effect in order within the one dispatcher step; per node it is one operation
	entries []entry   // the plan: (node, value) per entry (value unused for reads)
	derived []*opRec  // after execution: one record per node touched
	chain   []int     // derived write: every value the request wrote to this node, in order (val = the last)
	multi   bool      // derived from a multi-entry request
}

type entry struct{ node, val int }

var clock atomic.Int64

type dispLog struct {
	mu     sync.Mutex
	begins []int // op ids in dispatcher order
	at     map[int][2]int64
	open   int // requests between begin and end (must never exceed 1)
	maxOpn int
	others int
}

func opID(req ua.Request) int {
	switch r := req.(type) {
	case *ua.ReadRequest:
		if len(r.NodesToRead) == 1 && r.MaxAge >= 1 {
			return int(r.MaxAge)
		}
	case *ua.WriteRequest:
		if len(r.NodesToWrite) == 1 && r.NodesToWrite[0].Value != nil && r.NodesToWrite[0].Value.Value != nil {
			if v, ok := r.NodesToWrite[0].Value.Value.Value().([]int32); ok && len(v) > 0 {
				return int(v[0])
			}
		}
	}
	return 0
}

func (d *dispLog) hook(name string, args ...interface{}) {
	if name != "dispatch.begin" && name != "dispatch.end" {
		return
	}
	req, _ := args[0].(ua.Request)
	d.mu.Lock()
	defer d.mu.Unlock()
	t := clock.Add(1)
	if name == "dispatch.begin" {
		d.open++
		if d.open > d.maxOpn {
			d.maxOpn = d.open
		}
	} else {
		d.open--
	}
	id := opID(req)
	if id == 0 {
		d.others++
		return
	}
	x := d.at[id]
	if name == "dispatch.begin" {
		d.begins = append(d.begins, id)
		x[0] = t
	} else {
		x[1] = t
	}
	d.at[id] = x
}

func firstLine(s string) string {
	if i := strings.IndexByte(s, '\n'); i >= 0 {
		s = s[:i]
	}
	if len(s) > 160 {
		s = s[:160]
	}
	return s
}

func freePort() int {
	l, err := net.Listen("tcp", "127.0.0.1:0")
	if err != nil {
		return 0
	}
	defer l.Close()
	return l.Addr().(*net.TCPAddr).Port
}

// ---------------------------------------------------------------- linearizability search (client side only)

// linearizable decides whether the operations on ONE register (initial value
// init) have a linearization; ops must be at most 64.
func linearizable(ops []*opRec, init int) bool {
	_, ok := linearization(ops, init)
	return ok
}

// linearization returns a witness order (indices into ops) if there is one.
func linearization(ops []*opRec, init int) ([]int, bool) {
	n := len(ops)
	if n > 64 {
		panic("too many operations on one node for the checker")
	}
	type key struct {
		mask uint64
		val  int
	}
	bad := map[key]bool{}
	full := uint64(1)<<uint(n) - 1
	if n == 64 {
		full = ^uint64(0)
	}
	var order []int
	var rec func(mask uint64, val int) bool
	rec = func(mask uint64, val int) bool {
		if mask == full {
			return true
		}
		k := key{mask, val}
		if bad[k] {
			return false
		}
		// an operation may come next iff no other remaining operation responded before it was invoked
		minResp := int64(1) << 62
		for i, o := range ops {
			if mask&(1<<uint(i)) == 0 && o.resp < minResp {
				minResp = o.resp
			}
		}
		for i, o := range ops {
			if mask&(1<<uint(i)) != 0 || o.inv > minResp {
				continue
			}
			nv := val
			if o.write {
				nv = o.val
			} else if o.val != val {
				continue
			}
			order = append(order, i)
			if rec(mask|1<<uint(i), nv) {
				return true
			}
			order = order[:len(order)-1]
		}
		bad[k] = true
		return false
	}
	ok := rec(0, init)
	return order, ok
}

// ---------------------------------------------------------------- trace text

func traceLine(k int, ops []*opRec) string {
	type ev struct {
		t int64
		s string
	}
	var evs []ev
	for _, o := range ops {
		kind := map[bool]string{false: "", true: "a"}[o.app]
		if o.write {
			evs = append(evs, ev{o.inv, fmt.Sprintf("i:%d:%sw:%d:%d", o.id, kind, o.node, o.val)})
		} else {
			evs = append(evs, ev{o.inv, fmt.Sprintf("i:%d:%sr:%d", o.id, kind, o.node)})
		}
		if o.begin != 0 {
			evs = append(evs, ev{o.begin, fmt.Sprintf("d:%d", o.id)})
		}
		if o.write {
			evs = append(evs, ev{o.resp, fmt.Sprintf("p:%d:ok", o.id)})
		} else {
			evs = append(evs, ev{o.resp, fmt.Sprintf("p:%d:v%d", o.id, o.val)})
		}
	}
	sort.Slice(evs, func(i, j int) bool { return evs[i].t < evs[j].t })
	p := []string{"trace", strconv.Itoa(k)}
	for _, e := range evs {
		p = append(p, e.s)
	}
	return strings.Join(p, " ")
}

// parseTrace rebuilds the client-side history from a trace line (replay).
func parseTrace(line string) (int, []*opRec, bool) {
	f := strings.Fields(line)
	if len(f) < 2 || f[0] != "trace" {
		return 0, nil, false
	}
	k, _ := strconv.Atoi(f[1])
	byID := map[int]*opRec{}
	var ops []*opRec
	for t, s := range f[2:] {
		q := strings.Split(s, ":")
		id, _ := strconv.Atoi(q[1])
		switch q[0] {
		case "i":
			o := &opRec{id: id, inv: int64(t + 1), ok: true}
			o.node, _ = strconv.Atoi(q[3])
			o.app = strings.HasPrefix(q[2], "a")
			if strings.HasSuffix(q[2], "w") {
				o.write = true
				o.val, _ = strconv.Atoi(q[4])
			}
			byID[id] = o
			ops = append(ops, o)
		case "d":
			if o := byID[id]; o != nil {
				o.begin = int64(t + 1)
			}
		case "p":
			if o := byID[id]; o != nil {
				o.resp = int64(t + 1)
				if !o.write {
					o.val, _ = strconv.Atoi(strings.TrimPrefix(q[2], "v"))
				}
			}
		}
	}
	return k, ops, true
}

// check evaluates tie and oracle on one finished history.
func check(r *h.Result, d *h.Driver, k int, ops []*opRec, dispOrder []int) {
	line := traceLine(k, ops)
	r.Count(line, true)
	// ---- oracle: client-side history only
	perNode := map[int][]*opRec{}
	for _, o := range ops {
		perNode[o.node] = append(perNode[o.node], o)
	}
	hasApp := false
	for _, o := range ops {
		hasApp = hasApp || o.app || o.multi
	}
	for node, l := range perNode {
		if len(l) > 64 {
			r.Notes = append(r.Notes, "history with more than 64 operations on a node skipped by the search")
			continue
		}
		overl := 0
		for i, a := range l {
			for _, b := range l[i+1:] {
				if a.inv < b.resp && b.inv < a.resp {
					overl++
				}
			}
		}
		r.Distribution["overlapping-pairs"] += overl
		witness, ok := linearization(l, 0)
		if !ok {
			r.Fail(line, "", fmt.Sprintf("the history of node %d (%d operations, %d overlapping pairs) has no linearization w.r.t. a register", node, len(l), overl))
			continue
		}
		r.Hit("node-history-linearizable")
		if hasApp {
			// tie for histories with application steps: the dispatcher hook does not see those, so the
			// linearization found above is handed to the model, which must give the observed results
			var lin, want []string
			for _, i := range witness {
				o := l[i]
				pre := ""
				if o.app {
					pre = "a"
				}
				if o.write && len(o.chain) > 1 {
					// the entries of one request take effect in order
					for _, v := range o.chain {
						lin = append(lin, fmt.Sprintf("w:%d:%d", o.node, v))
						want = append(want, "ok")
					}
				} else if o.write {
					lin = append(lin, fmt.Sprintf("%sw:%d:%d", pre, o.node, o.val))
					want = append(want, "ok")
				} else {
					lin = append(lin, fmt.Sprintf("%sr:%d", pre, o.node))
					want = append(want, fmt.Sprintf("v%d", o.val))
				}
			}
			r.Compare(d, "lin "+strconv.Itoa(k)+" "+strings.Join(lin, " "), strings.Join(want, " "))
		}
	}
	if hasApp {
		r.Hit("history-with-application-steps-or-multi-entry-requests")
		r.TracesValidated++
		return
	}
	// ---- tie (a): results equal the register machine run in dispatcher order
	byID := map[int]*opRec{}
	for _, o := range ops {
		byID[o.id] = o
	}
	var lin, want []string
	for _, id := range dispOrder {
		o := byID[id]
		if o == nil {
			continue
		}
		if o.write {
			lin = append(lin, fmt.Sprintf("w:%d:%d", o.node, o.val))
			want = append(want, "ok")
		} else {
			lin = append(lin, fmt.Sprintf("r:%d", o.node))
			want = append(want, fmt.Sprintf("v%d", o.val))
		}
	}
	r.Compare(d, "lin "+strconv.Itoa(k)+" "+strings.Join(lin, " "), strings.Join(want, " "))
	// ---- tie (b): the merged trace is a trace of the single-dispatcher machine
	r.Compare(d, line, "valid")
	r.TracesValidated++
}

const sigMapRace = "C34.mapnamespace-setvalue-races-with-read"

// mapRaceChild is the witness of the listed finding, run in a child process because it ends in a
// fatal runtime error: the application updates a MapNamespace through its documented API
// (SetValue, which takes the map's lock) while a client reads a key (MapNamespace.Attribute reads
// the Go map WITHOUT the lock).
func mapRaceChild() {
	log.SetOutput(io.Discard)
	port := freePort()
	srv := server.New(server.EnableSecurity("None", ua.MessageSecurityModeNone),
		server.EnableAuthMode(ua.UserTokenTypeAnonymous), server.EndPoint("localhost", port))
	m := server.NewMapNamespace(srv, "urn:verif:maprace")
	m.Data["a"] = int32(0)
	if err := srv.Start(context.Background()); err != nil {
		fmt.Println("child-error", err)
		return
	}
	ctx := context.Background()
	c, err := opcua.NewClient(fmt.Sprintf("opc.tcp://localhost:%d", port), opcua.SecurityMode(ua.MessageSecurityModeNone))
	if err == nil {
		err = c.Connect(ctx)
	}
	if err != nil {
		fmt.Println("child-error", err)
		return
	}
	go func() {
		for i := 0; ; i++ {
			m.SetValue("a", int32(i))
			m.SetValue(fmt.Sprint("k", i%64), int32(i))
		}
	}()
	id := ua.NewStringNodeID(m.ID(), "a")
	for t0 := time.Now(); time.Since(t0) < 8*time.Second; {
		if _, err := c.Read(ctx, &ua.ReadRequest{NodesToRead: []*ua.ReadValueID{{NodeID: id, AttributeID: ua.AttributeIDValue}}}); err != nil {
			fmt.Println("read-error", err)
			return
		}
	}
	fmt.Println("survived")
}

// execMulti sends one Write / Read request with several entries and derives one operation per node.
// atomic: no application goroutine runs next to the clients, so the entries of the request take effect
// together (one dispatcher step) and each node sees ONE operation; otherwise application steps can fall
// between the entries and every entry is an operation of its own (same interval).
func execMulti(ctx context.Context, c *opcua.Client, ids []*ua.NodeID, op *opRec, atomic bool) {
	perNode := map[int]*opRec{}
	var order []int
	rec := func(node int) *opRec {
		if !atomic {
			node = -1 - len(order) // a fresh record per entry
		}
		if perNode[node] == nil {
			perNode[node] = &opRec{id: op.id*16 + len(order) + 1<<40, write: op.write, multi: true, ok: true}
			order = append(order, node)
		}
		return perNode[node]
	}
	if op.write {
		req := &ua.WriteRequest{}
		for _, e := range op.entries {
			req.NodesToWrite = append(req.NodesToWrite, &ua.WriteValue{NodeID: ids[e.node], AttributeID: ua.AttributeIDValue,
				Value: &ua.DataValue{EncodingMask: ua.DataValueValue, Value: ua.MustVariant([]int32{int32(e.val), int32(e.val)})}})
			x := rec(e.node)
			x.node = e.node
			x.chain = append(x.chain, e.val)
			x.val = e.val // the last entry for the node is what stays
		}
		op.inv = clock.Add(1)
		resp, err := c.Write(ctx, req)
		op.resp = clock.Add(1)
		if err != nil || len(resp.Results) != len(op.entries) {
			op.errText = fmt.Sprint("multi-entry write: ", err)
			return
		}
		for i, st := range resp.Results {
			if st != ua.StatusOK {
				op.errText = fmt.Sprintf("multi-entry write: entry %d answered %v", i, st)
			}
		}
	} else {
		req := &ua.ReadRequest{MaxAge: float64(op.id), TimestampsToReturn: ua.TimestampsToReturnNeither}
		for _, e := range op.entries {
			req.NodesToRead = append(req.NodesToRead, &ua.ReadValueID{NodeID: ids[e.node], AttributeID: ua.AttributeIDValue})
		}
		op.inv = clock.Add(1)
		resp, err := c.Read(ctx, req)
		op.resp = clock.Add(1)
		if err != nil || len(resp.Results) != len(op.entries) {
			op.errText = fmt.Sprint("multi-entry read: ", err)
			return
		}
		seen := map[int]bool{}
		for i, dv := range resp.Results {
			x := rec(op.entries[i].node)
			x.node = op.entries[i].node
			val := -2000
			if v, ok := dv.Value.Value().([]int32); ok && dv.Status == ua.StatusOK && len(v) == 2 && v[0] == v[1] {
				val = int(v[0])
			} else {
				x.ok = false
			}
			// one request is one dispatcher step: two entries for the same node see the same value
			if atomic && seen[x.node] && x.val != val {
				x.val = -3000
			}
			if !atomic || !seen[x.node] {
				x.val = val
			}
			seen[x.node] = true
		}
	}
	for _, node := range order {
		x := perNode[node]
		x.inv, x.resp = op.inv, op.resp
		op.derived = append(op.derived, x)
	}
	op.ok = true
}

func main() {
	if os.Getenv("C34_CHILD") == "maprace" {
		mapRaceChild()
		return
	}
	log.SetOutput(io.Discard)
	o := h.ParseOpts()
	r := h.NewResult("C34", o)
	d, err := h.StartDriver(o.Driver)
	if err != nil {
		r.InfraError = err.Error()
		r.Write(o.Out)
		return
	}
	defer d.Close()
	r.Rule = "case = one concurrent history: 4 real clients (own connection and session) x 16 operations (read / write of the Value attribute; unique array values [id,id], half of the writes with a non-monotone client source timestamp, a quarter of the reads with an IndexRange, MaxAge = operation id) over 3 fresh shared nodes (two nodes of a node namespace with the ids i=N and s=N (a string id with the same text), one key of a map namespace); in every second history 40 % of the requests carry 2-4 entries (the same node several times, mixed with other nodes; the entries take effect in order within one dispatcher step), in every second history plus an application goroutine that replaces and reads the values of the two nodes directly (Node.SetAttribute / Node.Value, outside the dispatcher); all events stamped by one atomic logical clock; the merged trace (invocation, hooked dispatcher step, response) must be accepted by Linear.mrun over the attribute service model and the results must equal Access.run in dispatcher order; oracle: exhaustive linearizability search on the client-side history per node; distinct by the whole trace"

	if o.Replay != "" {
		if k, ops, ok := parseTrace(o.Replay); ok {
			var order []*opRec
			for _, x := range ops {
				if x.begin != 0 {
					order = append(order, x)
				}
			}
			sort.Slice(order, func(i, j int) bool { return order[i].begin < order[j].begin })
			var ids []int
			for _, x := range order {
				ids = append(ids, x.id)
			}
			check(r, d, k, ops, ids)
		} else {
			r.Notes = append(r.Notes, "cannot parse replay case")
		}
		r.Write(o.Out)
		return
	}

	// self-test of the search: a stale read after a completed write has no linearization
	if _, bad, _ := parseTrace("trace 1 i:1:w:0:1 d:1 p:1:ok i:2:r:0 d:2 p:2:v0"); linearizable(bad, 0) {
		r.InfraError = "the linearizability search accepts a stale read"
		r.Write(o.Out)
		return
	}
	for _, l := range o.CorpusLines() {
		if k, ops, ok := parseTrace(l); ok {
			var order []*opRec
			for _, x := range ops {
				if x.begin != 0 {
					order = append(order, x)
				}
			}
			sort.Slice(order, func(i, j int) bool { return order[i].begin < order[j].begin })
			var ids []int
			for _, x := range order {
				ids = append(ids, x.id)
			}
			check(r, d, k, ops, ids)
		}
	}
	// the listed finding about the map namespace (child process: it kills the server)
	{
		cmd := exec.Command(os.Args[0])
		cmd.Env = append(os.Environ(), "C34_CHILD=maprace", "GOMEMLIMIT=1GiB")
		var out strings.Builder
		cmd.Stdout, cmd.Stderr = &out, &out
		done := make(chan error, 1)
		if err := cmd.Start(); err == nil {
			go func() { done <- cmd.Wait() }()
			select {
			case <-done:
			case <-time.After(60 * time.Second):
				cmd.Process.Kill()
			}
		}
		if strings.Contains(out.String(), "concurrent map read and map write") && strings.Contains(out.String(), "MapNamespace).Attribute") {
			r.Confirm(sigMapRace, "application goroutine calling MapNamespace.SetValue in a loop + one client reading a key: the server process dies with `fatal error: concurrent map read and map write` in MapNamespace.Attribute")
		} else {
			r.Notes = append(r.Notes, "map namespace race not reproduced this time: "+firstLine(out.String()))
		}
	}
	rnd := h.NewRand(o.Seed)
	dl := &dispLog{at: map[int][2]int64{}}
	var srv *server.Server
	var ns *server.NodeNameSpace
	var mapNS *server.MapNamespace
	var port int
	for try := 0; try < 5; try++ {
		port = freePort()
		srv = server.New(server.EnableSecurity("None", ua.MessageSecurityModeNone),
			server.EnableAuthMode(ua.UserTokenTypeAnonymous), server.EndPoint("localhost", port))
		ns = server.NewNodeNameSpace(srv, "urn:verif:linear")
		mapNS = server.NewMapNamespace(srv, "urn:verif:linear:map")
		if err = srv.Start(context.Background()); err == nil {
			break
		}
	}
	if err != nil {
		r.InfraError = "server start: " + err.Error()
		r.Write(o.Out)
		return
	}
	defer srv.Close()
	server.VerifSetHook(dl.hook)

	const nClients, nNodes, perClient = 4, 3, 16
	ctx := context.Background()
	var clients []*opcua.Client
	for i := 0; i < nClients; i++ {
		cctx, cancel := context.WithTimeout(ctx, 60*time.Second)
		c, err := opcua.NewClient(fmt.Sprintf("opc.tcp://localhost:%d", port), opcua.SecurityMode(ua.MessageSecurityModeNone), opcua.RequestTimeout(60*time.Second))
		if err == nil {
			err = c.Connect(cctx)
		}
		cancel()
		if err != nil {
			r.InfraError = "client connect: " + fmt.Sprint(err)
			r.Write(o.Out)
			return
		}
		defer c.Close(ctx)
		clients = append(clients, c)
	}

	nextOp := 0
	nextNode := uint32(1000)
	rounds := o.N(150, 2500)
	for round := 0; round < rounds && r.InfraError == ""; round++ {
		// fresh nodes, initial value 0
		// nodes 0 and 1 live in a node namespace, node 2 is a key of a map namespace (second node kind:
		// its Attribute / SetAttribute go through the same dispatcher; SetAttribute takes the map's lock)
		ids := make([]*ua.NodeID, nNodes)
		nodes := make([]*server.Node, nNodes)
		for k := range ids {
			nextNode++
			if k == 2 {
				key := fmt.Sprintf("k%d", nextNode)
				mapNS.Mu.Lock()
				mapNS.Data[key] = []int32{0, 0}
				mapNS.Mu.Unlock()
				ids[k] = ua.NewStringNodeID(mapNS.ID(), key)
				continue
			}
			ids[k] = ua.NewNumericNodeID(ns.ID(), nextNode)
			if k == 1 {
				// a STRING id whose text is the number of node 0 (i=N and s="N" are different nodes)
				ids[k] = ua.NewStringNodeID(ns.ID(), fmt.Sprint(ids[0].IntID()))
			}
			nodes[k] = ns.AddNode(server.NewVariableNode(ids[k], fmt.Sprintf("n%d", nextNode), []int32{0, 0}))
		}
		plans := make([][]*opRec, nClients)
		for c := range plans {
			for j := 0; j < perClient; j++ {
				nextOp++
				op := &opRec{id: nextOp, node: rnd.Intn(nNodes), write: rnd.Chance(50)}
				if round%4 == 3 {
					op.node = 0 // a round where everybody hits the same node
				}
				if op.write {
					op.val = op.id
					if rnd.Chance(50) {
						op.stamp = 1 + rnd.Intn(1000)
					}
				} else if rnd.Chance(25) {
					op.rng = []string{"0", "1", "0:1"}[rnd.Intn(3)]
				}
				if round%4 >= 2 && rnd.Chance(40) {
					// (histories 0 mod 4 stay plain: they are validated against the hooked dispatcher order)
					// 2-4 entries; a third of the time the first node again (the same node more than once)
					op.entries = []entry{{op.node, op.id}}
					for n := 1 + rnd.Intn(3); n > 0; n-- {
						e := entry{node: rnd.Intn(nNodes)}
						if rnd.Chance(35) || round%4 == 3 {
							e.node = op.node
						}
						if op.write {
							nextOp++
							e.val = nextOp
						}
						op.entries = append(op.entries, e)
					}
					op.rng, op.stamp = "", 0
				}
				plans[c] = append(plans[c], op)
			}
		}
		dl.mu.Lock()
		dl.begins = nil
		dl.mu.Unlock()
		var wg sync.WaitGroup
		start := make(chan struct{})
		for c := range plans {
			wg.Add(1)
			go func(c int) {
				defer wg.Done()
				<-start
				for _, op := range plans[c] {
					if len(op.entries) > 0 {
						execMulti(ctx, clients[c], ids, op, round%2 == 0)
						continue
					}
					if op.write {
						// the value is the array [id, id]; some writes carry a client side source
						// timestamp, and those are not monotone (clients with skewed clocks)
						dv := &ua.DataValue{EncodingMask: ua.DataValueValue, Value: ua.MustVariant([]int32{int32(op.val), int32(op.val)})}
						if op.stamp != 0 {
							dv.EncodingMask |= ua.DataValueSourceTimestamp
							dv.SourceTimestamp = time.Date(2024, 1, 1, 0, 0, 0, 0, time.UTC).Add(time.Duration(op.stamp) * time.Second)
						}
						req := &ua.WriteRequest{NodesToWrite: []*ua.WriteValue{{NodeID: ids[op.node], AttributeID: ua.AttributeIDValue, Value: dv}}}
						op.inv = clock.Add(1)
						resp, err := clients[c].Write(ctx, req)
						op.resp = clock.Add(1)
						if err != nil || len(resp.Results) != 1 {
							op.errText = fmt.Sprint(err)
						} else {
							op.ok = resp.Results[0] == ua.StatusOK
						}
					} else {
						req := &ua.ReadRequest{MaxAge: float64(op.id), TimestampsToReturn: ua.TimestampsToReturnNeither,
							NodesToRead: []*ua.ReadValueID{{NodeID: ids[op.node], AttributeID: ua.AttributeIDValue, IndexRange: op.rng}}}
						op.inv = clock.Add(1)
						resp, err := clients[c].Read(ctx, req)
						op.resp = clock.Add(1)
						if err != nil || len(resp.Results) != 1 {
							op.errText = fmt.Sprint(err)
						} else if v, ok := resp.Results[0].Value.Value().([]int32); ok && resp.Results[0].Status == ua.StatusOK {
							// every value ever written is [x, x]; a ranged read may legitimately return
							// a part of it; anything else is a value nobody wrote
							op.ok = true
							switch {
							case len(v) == 2 && v[0] == v[1]:
								op.val = int(v[0])
							case op.rng != "" && len(v) == 1:
								op.val = int(v[0])
							default:
								op.val = -1000 - len(v)
							}
						}
					}
				}
			}(c)
		}
		// every second round the embedding application works on nodes 0 and 1 at the same time, outside
		// the dispatcher: node.SetAttribute(Value, …) and node.Value()
		var appOps []*opRec
		if round%2 == 1 {
			for j := 0; j < perClient; j++ {
				nextOp++
				op := &opRec{id: nextOp, node: rnd.Intn(2), write: rnd.Chance(50), app: true}
				if round%4 == 3 {
					op.node = 0
				}
				if op.write {
					op.val = op.id
				}
				appOps = append(appOps, op)
			}
			wg.Add(1)
			go func() {
				defer wg.Done()
				<-start
				for _, op := range appOps {
					n := nodes[op.node]
					if op.write {
						dv := &ua.DataValue{EncodingMask: ua.DataValueValue, Value: ua.MustVariant([]int32{int32(op.val), int32(op.val)})}
						op.inv = clock.Add(1)
						err := n.SetAttribute(ua.AttributeIDValue, dv)
						op.resp = clock.Add(1)
						op.ok = err == nil
					} else {
						op.inv = clock.Add(1)
						dv := n.Value()
						op.resp = clock.Add(1)
						if v, ok := dv.Value.Value().([]int32); ok && len(v) == 2 && v[0] == v[1] {
							op.ok, op.val = true, int(v[0])
						}
					}
					if j := op.id % 3; j == 0 {
						time.Sleep(time.Duration(50+op.id%200) * time.Microsecond)
					}
				}
			}()
		}
		close(start)
		wg.Wait()
		dl.mu.Lock()
		order := append([]int{}, dl.begins...)
		var all []*opRec
		for _, p := range plans {
			for _, op := range p {
				x := dl.at[op.id]
				op.begin, op.end = x[0], x[1]
				if len(op.entries) > 0 {
					if op.errText != "" {
						all = append(all, op)
					}
					all = append(all, op.derived...)
					continue
				}
				all = append(all, op)
			}
		}
		all = append(all, appOps...)
		maxOpen := dl.maxOpn
		dl.mu.Unlock()
		for _, op := range all {
			if op.errText != "" {
				r.InfraError = fmt.Sprintf("operation %d failed: %s", op.id, op.errText)
			} else if !op.ok {
				// "every observed history of SUCCESSFUL operations": the nodes grant everything, so a refusal is a failure
				r.Fail(traceLine(nNodes, all), "", fmt.Sprintf("operation %d on an unrestricted node was not successful", op.id))
			}
			if op.write {
				r.Hit("write")
			} else {
				r.Hit("read")
			}
			if op.multi && op.write {
				r.Hit("multi-entry-write")
			} else if op.multi {
				r.Hit("multi-entry-read")
			}
			if op.app {
				r.Hit("application-step")
			} else if op.begin == 0 {
				r.Hit("never-dispatched")
			}
		}
		if r.InfraError != "" {
			break
		}
		if maxOpen > 1 {
			r.Disagree("dispatcher steps overlap", "at most one request between dispatch.begin and dispatch.end", fmt.Sprintf("%d at once", maxOpen))
		}
		check(r, d, nNodes, all, order)
		if round < 2 {
			r.Sample(traceLine(nNodes, all))
		}
	}
	r.Notes = append(r.Notes, fmt.Sprintf("requests that went through the dispatcher without an operation id (session handling): %d", dl.others))
	for _, b := range []string{"read", "write", "node-history-linearizable", "overlapping-pairs", "application-step", "history-with-application-steps-or-multi-entry-requests", "multi-entry-write", "multi-entry-read"} {
		if r.Distribution[b] == 0 {
			r.Unreached = append(r.Unreached, b)
		}
	}
	r.Write(o.Out)
}
