// Correspondence runner and property oracle for C20 (messages delivered to the
// application never change afterwards).
//
// Real channels (None / Sign / SignAndEncrypt, client and server kind) receive
// back-to-back single- and multi-chunk messages with ByteString bodies, on one
// channel and on two channels in parallel.  Every delivered message is
// snapshotted deeply (re-encoded) when it is delivered, and the memory region
// of its byte string is recorded; after all later traffic the messages are
// re-encoded again and compared, and the regions of different messages must
// not overlap.  The Lean ownership model (`Own.run` with the alias facts read
// from the source) is asked for the same operation sequence.
package main

import (
	"context"
	"fmt"
	"io"
	"strings"
	"sync"
	"time"
	"unsafe"

	"github.com/gopcua/opcua/ua"
	"github.com/gopcua/opcua/uasc"

	"verifharness/internal/h"
)

type env struct {
	o    *h.Opts
	r    *h.Result
	d    *h.Driver
	rnd  *h.Rand
	keyA *h.KeyPair
	keyB *h.KeyPair
}

type op struct {
	final bool
	req   uint32
}

type ccase struct {
	uri    string
	mode   ua.MessageSecurityMode
	server bool
	ops    []op
}

type delivered struct {
	req      uint32
	msg      *uasc.MessageBody
	snapshot string
	lo, hi   uintptr // memory region of the byte string (0,0 if empty)
}

func short(uri string) string { return uri[strings.LastIndex(uri, "#")+1:] }

func (c *ccase) secure() bool { return c.mode != ua.MessageSecurityModeNone }

func (e *env) line(c *ccase) string {
	toks := make([]string, len(c.ops))
	for i, o := range c.ops {
		k := "n"
		if c.secure() {
			k = "s"
		}
		if o.final {
			k += "f"
		} else {
			k += "c"
		}
		toks[i] = fmt.Sprintf("%s:%d", k, o.req)
	}
	return "own " + strings.Join(toks, " ")
}

func (e *env) gen() *ccase {
	c := &ccase{uri: ua.SecurityPolicyURINone, mode: ua.MessageSecurityModeNone, server: e.rnd.Bool()}
	if e.rnd.Chance(60) {
		c.uri = []string{ua.SecurityPolicyURIBasic256Sha256, ua.SecurityPolicyURIAes128Sha256RsaOaep, ua.SecurityPolicyURIBasic256}[e.rnd.Intn(3)]
		c.mode = ua.MessageSecurityMode(e.rnd.Pick(2, 3))
	}
	n := 3 + e.rnd.Intn(8)
	req := uint32(1)
	open := map[uint32]int{} // request id → chunks sent so far
	for i := 0; i < n; i++ {
		switch {
		case len(open) > 0 && e.rnd.Chance(50):
			// continue or finish an open message
			for r, k := range open {
				if k >= 3 || e.rnd.Bool() {
					c.ops = append(c.ops, op{true, r})
					delete(open, r)
				} else {
					c.ops = append(c.ops, op{false, r})
					open[r] = k + 1
				}
				break
			}
		case e.rnd.Chance(45) && len(open) < 2:
			c.ops = append(c.ops, op{false, req})
			open[req] = 1
			req++
		default:
			c.ops = append(c.ops, op{true, req})
			req++
		}
	}
	for r := range open { // finish what is open (deterministic order)
		_ = r
	}
	for r := uint32(1); r < req; r++ {
		if _, ok := open[r]; ok {
			c.ops = append(c.ops, op{true, r})
		}
	}
	return c
}

// bytesOf returns the ByteString of the reference messages.
func bytesOf(m *uasc.MessageBody) []byte {
	if r, ok := m.Request().(*ua.WriteRequest); ok && len(r.NodesToWrite) == 1 && r.NodesToWrite[0].Value != nil && r.NodesToWrite[0].Value.Value != nil {
		b, _ := r.NodesToWrite[0].Value.Value.Value().([]byte)
		return b
	}
	if r, ok := m.Response().(*ua.ReadResponse); ok && len(r.Results) == 1 && r.Results[0].Value != nil {
		b, _ := r.Results[0].Value.Value().([]byte)
		return b
	}
	return nil
}

func encodeBody(m *uasc.MessageBody) string {
	if m.Err != nil {
		return "error: " + m.Err.Error()
	}
	if r := m.Request(); r != nil {
		return h.RecvServiceHex(r)
	}
	if r := m.Response(); r != nil {
		return h.RecvServiceHex(r)
	}
	return "-"
}

func (e *env) service(rnd *h.Rand, n int, response bool, reqid uint32) []byte {
	payload := rnd.Bytes(n)
	var v interface{}
	if response {
		v = &ua.ReadResponse{
			ResponseHeader: &ua.ResponseHeader{Timestamp: time.Unix(1700000000, 0).UTC(), RequestHandle: reqid,
				ServiceDiagnostics: &ua.DiagnosticInfo{}, StringTable: []string{}, AdditionalHeader: ua.NewExtensionObject(nil)},
			Results: []*ua.DataValue{{EncodingMask: ua.DataValueValue, Value: ua.MustVariant(payload)}},
		}
	} else {
		v = &ua.WriteRequest{
			RequestHeader: &ua.RequestHeader{AuthenticationToken: ua.NewTwoByteNodeID(0), Timestamp: time.Unix(1700000000, 0).UTC(),
				RequestHandle: reqid, AdditionalHeader: ua.NewExtensionObject(nil)},
			NodesToWrite: []*ua.WriteValue{{NodeID: ua.NewNumericNodeID(2, 1000), AttributeID: ua.AttributeIDValue,
				Value: &ua.DataValue{EncodingMask: ua.DataValueValue, Value: ua.MustVariant(payload)}}},
		}
	}
	tb, _ := ua.Encode(ua.NewFourByteExpandedNodeID(0, ua.ServiceTypeID(v)))
	bb, _ := ua.Encode(v)
	return append(tb, bb...)
}

// exec runs the operation sequence on a fresh channel and returns the delivered messages.
func (e *env) exec(c *ccase, rnd *h.Rand) ([]*delivered, error) {
	ln, rn := rnd.Bytes(32), rnd.Bytes(32)
	var cfg *uasc.Config
	if c.secure() {
		cfg = h.RecvSecureConfig(c.uri, c.mode, e.keyA, e.keyB.CertDER)
	} else {
		cfg = h.RecvNoneConfig()
	}
	// on every third unsecured server channel the peer first sends an OPN frame that names a
	// real policy with a real certificate and garbage behind it: readChunk rejects it, but has
	// already written the policy URI into the channel configuration (the mode stays None)
	poison := !c.secure() && c.server && rnd.Chance(35)
	var rc *h.RecvChannel
	var err error
	if poison {
		cfg.LocalKey, cfg.Certificate = e.keyA.Key, e.keyA.CertDER
		rc, err = h.RecvOpenServerChannel(cfg, h.RecvAck(65535, 65535, 512, 2*1024*1024), 11, 22, ln, rn)
	} else {
		rc, err = h.OpenRecvChannel(cfg, h.RecvAck(65535, 65535, 512, 2*1024*1024), c.server, 11, 22, 1, ln, rn)
	}
	if err != nil {
		return nil, err
	}
	defer rc.Close()
	var sealer *h.RecvSealer
	if c.secure() {
		if sealer, err = h.NewRecvSealer(c.uri, c.mode, ln, rn); err != nil {
			return nil, err
		}
	}
	// plan the chunks: every request id is one message cut into as many pieces as it has ops
	count := map[uint32]int{}
	for _, o := range c.ops {
		count[o.req]++
	}
	bodies := map[uint32][]byte{}
	sent := map[uint32]int{}
	var frames [][]byte
	if poison {
		lpb := func(p []byte) []byte {
			l := []byte{byte(len(p)), byte(len(p) >> 8), byte(len(p) >> 16), byte(len(p) >> 24)}
			return append(l, p...)
		}
		f := append([]byte("OPNF\x00\x00\x00\x00\x0b\x00\x00\x00"), lpb([]byte(ua.SecurityPolicyURIBasic256Sha256))...)
		f = append(f, lpb(e.keyB.CertDER)...)
		f = append(f, 0xff, 0xff, 0xff, 0xff)
		f = append(f, rnd.Bytes(256)...)
		f[4], f[5], f[6], f[7] = byte(len(f)), byte(len(f)>>8), byte(len(f)>>16), byte(len(f)>>24)
		frames = append(frames, f)
	}
	seq := uint32(1)
	for _, o := range c.ops {
		if bodies[o.req] == nil {
			size := rnd.Pick(1, 16, 200, 3000, 20000)
			bodies[o.req] = e.service(rnd, size, !c.server, o.req)
		}
		b, k, i := bodies[o.req], count[o.req], sent[o.req]
		piece := b[len(b)*i/k : len(b)*(i+1)/k]
		sent[o.req]++
		ct := byte('C')
		if o.final {
			ct = 'F'
		}
		ch := h.RecvRefChunk{Type: ct, ChannelID: 11, TokenID: 22, Seq: seq, Req: o.req, Body: piece}
		seq++
		w := ch.Raw()
		if sealer != nil {
			if w, err = sealer.Seal(ch); err != nil {
				return nil, err
			}
		}
		frames = append(frames, w)
	}
	werr := make(chan error, 1)
	go func() { werr <- h.RecvWriteAll(rc.Peer, frames) }()
	rc.Conn.SetReadDeadline(time.Now().Add(30 * time.Second))
	ctx, cancel := context.WithTimeout(context.Background(), 30*time.Second)
	defer cancel()
	var out []*delivered
	for i := 0; i < len(frames)+2; i++ {
		m := rc.SC.Receive(ctx)
		if m.Err == io.EOF {
			break
		}
		if m.Err != nil && poison && i == 0 {
			continue // the rejected OPN frame
		}
		if m.Err != nil {
			if strings.Contains(m.Err.Error(), "timeout") {
				return nil, fmt.Errorf("Receive: %v", m.Err)
			}
			// a well-formed stream must not produce errors: reported by the oracle
			out = append(out, &delivered{req: m.RequestID, msg: m, snapshot: "error: " + m.Err.Error()})
			continue
		}
		dv := &delivered{req: m.RequestID, msg: m, snapshot: encodeBody(m)}
		if b := bytesOf(m); len(b) > 0 {
			dv.lo = uintptr(unsafe.Pointer(&b[0]))
			dv.hi = dv.lo + uintptr(len(b))
		}
		out = append(out, dv)
	}
	if err := <-werr; err != nil {
		return nil, err
	}
	return out, nil
}

// verdict compares the delivered messages with their snapshots and computes the sharing groups.
func verdict(ds []*delivered) (string, string) {
	state := "frozen"
	detail := ""
	for i, dv := range ds {
		if now := encodeBody(dv.msg); now != dv.snapshot {
			state = "VIOLATED"
			detail = fmt.Sprintf("delivery %d (request %d) changed after later traffic: was %.60s… now %.60s…", i, dv.req, dv.snapshot, now)
			break
		}
	}
	group := make([]int, len(ds))
	next := 0
	for i := range ds {
		group[i] = -1
		for j := 0; j < i; j++ {
			if ds[i].lo != ds[i].hi && ds[j].lo != ds[j].hi && ds[i].lo < ds[j].hi && ds[j].lo < ds[i].hi {
				group[i] = group[j]
				if detail == "" {
					detail = fmt.Sprintf("deliveries %d and %d share memory", j, i)
				}
				break
			}
		}
		if group[i] < 0 {
			group[i] = next
			next++
		}
	}
	g := make([]string, len(group))
	for i, x := range group {
		g[i] = fmt.Sprint(x)
	}
	return state + " d=" + strings.Join(g, ","), detail
}

func modelGroups(ans string) string {
	// the model prints buffer identities: renumber by first occurrence
	f := strings.SplitN(ans, " d=", 2)
	if len(f) != 2 {
		return ans
	}
	seen := map[string]int{}
	var g []string
	for _, id := range strings.Split(f[1], ",") {
		if id == "" {
			continue
		}
		if _, ok := seen[id]; !ok {
			seen[id] = len(seen)
		}
		g = append(g, fmt.Sprint(seen[id]))
	}
	return f[0] + " d=" + strings.Join(g, ",")
}

func (e *env) runCase(c *ccase, parallel bool) {
	line := e.line(c)
	text := fmt.Sprintf("%s %d %v %s", short(c.uri), c.mode, c.server, line)
	var ds, ds2 []*delivered
	var err, err2 error
	if parallel {
		// the same operations on two channels at once (different payloads)
		var wg sync.WaitGroup
		r1, r2 := e.rnd.Fork(), e.rnd.Fork()
		wg.Add(2)
		go func() { defer wg.Done(); ds, err = e.exec(c, r1) }()
		go func() { defer wg.Done(); ds2, err2 = e.exec(c, r2) }()
		wg.Wait()
	} else {
		ds, err = e.exec(c, e.rnd.Fork())
	}
	if err != nil || err2 != nil {
		e.r.InfraError = fmt.Sprintf("exec: %v %v", err, err2)
		return
	}
	multi := false
	for _, o := range c.ops {
		if !o.final {
			multi = true
		}
	}
	e.r.Count(text, multi)
	e.r.Hit(fmt.Sprintf("mode:%d", c.mode))
	e.r.Hit(map[bool]string{true: "kind:server", false: "kind:client"}[c.server])
	e.r.Hit(map[bool]string{true: "channels:2-parallel", false: "channels:1"}[parallel])
	if multi {
		e.r.Hit("msgs:multi-chunk")
	}
	all := append(append([]*delivered{}, ds...), ds2...)
	impl, detail := verdict(all)
	implOne, _ := verdict(ds)
	e.r.Sample(text + " -> " + implOne)
	if e.d != nil {
		want := modelGroups(e.d.Ask(line))
		if want != implOne {
			e.r.Disagree(line, want, implOne)
		}
	}
	// ---- the property's own oracle: nothing changed, nothing shared (also across the two channels)
	nfinal := 0
	for _, o := range c.ops {
		if o.final {
			nfinal++
		}
	}
	for _, dv := range all {
		if strings.HasPrefix(dv.snapshot, "error: ") {
			e.r.Fail(text, "", "Receive returned an error on a well-formed stream (request "+fmt.Sprint(dv.req)+"): "+dv.snapshot)
			return
		}
	}
	if len(ds) != nfinal {
		e.r.Fail(text, "", fmt.Sprintf("%d messages delivered, %d sent", len(ds), nfinal))
		return
	}
	if strings.HasPrefix(impl, "VIOLATED") || detail != "" {
		e.r.Fail(text, "", detail)
	}
}

func (e *env) replay(line string) {
	f := strings.Fields(line)
	if len(f) < 5 || f[3] != "own" {
		return
	}
	c := &ccase{uri: ua.SecurityPolicyURINone, mode: ua.MessageSecurityModeNone, server: f[2] == "true"}
	for _, u := range []string{ua.SecurityPolicyURIBasic256Sha256, ua.SecurityPolicyURIAes128Sha256RsaOaep, ua.SecurityPolicyURIBasic256} {
		if short(u) == f[0] {
			c.uri = u
		}
	}
	var m int
	fmt.Sscan(f[1], &m)
	c.mode = ua.MessageSecurityMode(m)
	for _, t := range f[4:] {
		p := strings.Split(t, ":")
		if len(p) != 2 || len(p[0]) != 2 {
			return
		}
		var r uint32
		fmt.Sscan(p[1], &r)
		c.ops = append(c.ops, op{final: p[0][1] == 'f', req: r})
	}
	e.runCase(c, false)
	e.runCase(c, true)
}

func main() {
	o := h.ParseOpts()
	r := h.NewResult("C20", o)
	d, err := h.StartDriver(o.Driver)
	if err != nil {
		r.InfraError = err.Error()
		r.Write(o.Out)
		return
	}
	defer d.Close()
	e := &env{o: o, r: r, d: d, rnd: h.NewRand(o.Seed)}
	if e.keyA, err = h.LoadKey(o.Keys, 2048, "a"); err == nil {
		e.keyB, err = h.LoadKey(o.Keys, 2048, "b")
	}
	if err != nil {
		r.InfraError = "keys: " + err.Error()
		r.Write(o.Out)
		return
	}
	r.Rule = "case = (policy, mode None|Sign|SignAndEncrypt, channel kind, operation sequence of 3-14 chunk frames: single-chunk messages and messages of 2-4 chunks, up to two open at a time, interleaved; ByteString payloads of 1..20000 random bytes): real Receive over loopback TCP, each delivered message re-encoded at delivery and again after all later traffic, memory regions of the byte strings compared pairwise; every 3rd case runs the sequence on two channels in parallel and also compares across them. Model: Own.run with the generated alias facts → frozen + sharing groups. non-trivial = contains a multi-chunk message; distinct by text"
	if o.Replay != "" {
		e.replay(o.Replay)
		r.Write(o.Out)
		return
	}
	for _, l := range o.CorpusLines() {
		e.replay(l)
	}
	n := o.N(240, 6000)
	for i := 0; i < n && r.InfraError == ""; i++ {
		e.runCase(e.gen(), i%3 == 2)
	}
	for _, b := range []string{"mode:1", "mode:2", "mode:3", "kind:server", "kind:client", "channels:1", "channels:2-parallel", "msgs:multi-chunk"} {
		if r.Distribution[b] == 0 {
			r.Unreached = append(r.Unreached, b)
		}
	}
	r.Write(o.Out)
}
