#!/bin/sh
# Offline setup after a fresh restore: regenerate Gen/, build the Lean library,
# property theorems and drivers, and warm the Go build cache for the harness.
set -e
cd /verif
export GOFLAGS=-mod=mod GOPROXY=off GOSUMDB=off GOTOOLCHAIN=local
mkdir -p .work evidence replays
cp /repo/go.sum harness/go.sum 2>/dev/null || true
(cd harness && go build -tags verif -o ../.work/gen__repo ./cmd/gen && ../.work/gen__repo -repo /repo -out /verif/lean/OpcuaModel/Gen all) || echo "setup: gen reported failures (checks will report them)"
(cd harness && go build -tags verif ./... ) || echo "setup: harness build reported failures (checks will report them)"
cd lean
lake build OpcuaModel || true
for m in ../meta/C*.json; do
  id=$(basename "$m" .json)
  lake build "OpcuaModel.Props.$id" "drv_$id" || echo "setup: $id did not build (its check will report it)"
done
echo "setup done"
